//! String literals of the interpreters' vocabularies (match arms, lemmas, splitter patterns),
//! extracted once from the pinned tree; used only to enrich exploration alphabets.
pub const EN: &[&str] = &[
    "-", "and", "billion", "billionth", "eight", "eighteen", "eighteenth", "eighth", "eightieth", "eighty",
    "eleven", "eleventh", "fifteen", "fifteenth", "fifth", "fiftieth", "fifty", "first", "five", "fortieth",
    "forty", "four", "fourteen", "fourteenth", "fourth", "fourtieth", "fourty", "hundred", "hundredth",
    "million", "millionth", "nine", "nineteen", "nineteenth", "ninetieth", "ninety", "ninth", "nought", "o",
    "one", "oneth", "point", "second", "seconds", "seven", "seventeen", "seventeenth", "seventh",
    "seventieth", "seventy", "six", "sixteen", "sixteenth", "sixteeth", "sixth", "sixty", "tenth", "third",
    "thirds", "thirteen", "thirteenth", "thirtieth", "thirty", "thousand", "thousandth", "three", "twelfth",
    "twelve", "twentieth", "twenty", "two", "zero",
];
pub const FR: &[&str] = &[
    "-", "cent", "centième", "cinq", "cinquante", "cinquantième", "cinquième", "deux", "deuxième", "dix",
    "dixième", "douze", "douzième", "du", "et", "huit", "huitante", "huitantiène", "huitième", "l'", "le",
    "mil", "mille", "milliard", "milliardième", "million", "millionième", "millième", "neuf", "neuvième",
    "nonante", "nonantième", "numéro", "octante", "octantième", "onze", "onzième", "premier", "première",
    "quarante", "quarantième", "quatorze", "quatorzième", "quatre", "quatrième", "quinze", "quinzième",
    "seize", "seizième", "sept", "septante", "septantième", "septième", "six", "sixième", "soixante",
    "soixantième", "treize", "treizième", "trente", "trentième", "trois", "troisième", "un", "unième",
    "vingt", "vingtième", "virgule", "zéro",
];
pub const ES: &[&str] = &[
    "1/{repr}", "catorce", "catorceavo", "centavo", "centésima", "centésimo", "cero", "cien", "cienta",
    "ciento", "cinco", "cincuenta", "cincuentavo", "coma", "ctava", "ctavo", "cuadragésima", "cuadragésimo",
    "cuarenta", "cuarentavo", "cuarta", "cuarto", "cuatro", "cuatrocienta", "cuatrociento", "decimoctava",
    "decimoctavo", "decimocuarta", "decimocuarto", "decimonovena", "decimonoveno", "decimoprimera",
    "decimoprimero", "decimoquinta", "decimoquinto", "decimosegunda", "decimosegundo", "decimosexta",
    "decimosexto", "decimoséptima", "decimoséptimo", "decimotercera", "decimotercero", "decinueveavo",
    "deciseisavo", "diecinueve", "dieciocho", "dieciochoavo", "dieciseis", "diecisiete", "diecisieteavo",
    "dieciséis", "diez", "doce", "doceavo", "dos", "doscienta", "dosciento", "ducentésima", "ducentésimo",
    "duodécima", "duodécimo", "décima", "décimo", "mil", "millon", "millonésima", "millonésimo", "millón",
    "milésima", "milésimo", "nonagésima", "nonagésimo", "noningentésima", "noningentésimo", "novecienta",
    "noveciento", "novena", "noveno", "noventa", "noventavo", "nueve", "ochenta", "ochentavo", "ocho",
    "ochocienta", "ochociento", "octava", "octavo", "octingentésima", "octingentésimo", "octogésima",
    "octogésimo", "once", "onceavo", "primer", "primera", "primero", "quadringentésima", "quadringentésimo",
    "quince", "quinceavo", "quincuagésima", "quincuagésimo", "quingentésima", "quingentésimo", "quinienta",
    "quiniento", "quinta", "quinto", "segunda", "segundo", "seis", "seiscienta", "seisciento",
    "septingentésima", "septingentésimo", "septuagésima", "septuagésimo", "sesenta", "sesentavo",
    "setecienta", "seteciento", "setenta", "setentavo", "sexagésima", "sexagésimo", "sexcentésima",
    "sexcentésimo", "sexta", "sexto", "siete", "séptima", "séptimo", "tercer", "tercera", "tercero", "trece",
    "treceavo", "treinta", "treintavo", "tres", "trescienta", "tresciento", "tricentésima", "tricentésimo",
    "trigésima", "trigésimo", "un", "una", "undécima", "undécimo", "uno", "veintavo", "veinte", "veinteavo",
    "veinticinco", "veinticincoavo", "veinticuatro", "veinticuatroavo", "veintidos", "veintidosavo",
    "veintidós", "veintinueve", "veintinueveavo", "veintiocho", "veintiochoavo", "veintiseis",
    "veintiseisavo", "veintisiete", "veintisieteavo", "veintiséis", "veintitres", "veintitresavo",
    "veintitrés", "veintiun", "veintiuna", "veintiuno", "veintiunoavo", "veintiún", "vigésima", "vigésimo",
    "y",
];
pub const PT: &[&str] = &[
    "bilhã", "bilhões", "bilionésim", "biliã", "biliões", "catorze", "cem", "cent", "centésim", "cinc",
    "cinquent", "cinqüent", "dez", "dezanove", "dezasseis", "dezassete", "dezenove", "dezesseis",
    "dezessete", "dezoit", "dois", "doze", "duas", "ducentésim", "duzent", "décim", "e", "mil", "milhã",
    "milhões", "milionésim", "milésim", "non", "nonagésim", "nongentésim", "noningentésim", "nove",
    "novecent", "novent", "octingentésim", "octogésim", "oit", "oitav", "oitent", "oitocent", "onze",
    "primeir", "quadragésim", "quadringentésim", "quarent", "quart", "quatorze", "quatr", "quatrocent",
    "quingentésim", "quinhent", "quinquagésim", "quint", "quinze", "qüingentésim", "qüinquagésim", "segund",
    "seis", "seiscent", "seiscentésim", "septingentésim", "septuagésim", "sessent", "sete", "setecent",
    "setent", "setuagésim", "sexagésim", "sexcentésim", "sext", "sétim", "terceir", "trecentésim", "tres",
    "treze", "trezent", "trigésim", "trint", "três", "um", "vigésim", "vinte", "vírgula", "zero",
];
pub const IT: &[&str] = &[
    "bilione", "bilionesim", "bilioni", "centesim", "cento", "centun", "centunesimo", "centuno", "cinquanta",
    "cinquantesim", "cinquantottesim", "cinquantotto", "cinquantun", "cinquantunesim", "cinquantuno",
    "cinque", "cinquesim", "decim", "dedicesim", "diciannove", "diciannovesim", "diciassette",
    "diciassettesim", "diciottesim", "diciotto", "dieci", "dodicesim", "dodici", "due", "duesim", "e",
    "mila", "miliardesim", "miliardi", "miliardo", "milione", "milionesim", "milioni", "mille", "millesim",
    "non", "novanta", "novantesim", "novantottesim", "novantotto", "novantun", "novantunesim", "novantuno",
    "nove", "novesim", "ottanta", "ottantesim", "ottantottesim", "ottantotto", "ottantun", "ottantunesim",
    "ottantuno", "ottav", "ottesim", "otto", "prim", "quaranta", "quarantesim", "quarantottesim",
    "quarantotto", "quarantun", "quarantunesim", "quarantuno", "quart", "quattordicesim", "quattordici",
    "quattresim", "quattro", "quindicesim", "quindici", "quint", "second", "secondi", "sedici", "sei",
    "seiesim", "sessanta", "sessantesim", "sessantottesim", "sessantotto", "sessantun", "sessantunesim",
    "sessantuno", "sest", "settanta", "settantesim", "settantottesim", "settantotto", "settantun",
    "settantuno", "settanunesim", "sette", "settesim", "settim", "terz", "tre", "tredicesim", "tredici",
    "treesim", "trenta", "trentesim", "trentottesim", "trentotto", "trentun", "trentunesim", "trentuno",
    "tré", "ttanta", "ttantesim", "ttantottesim", "ttantotto", "ttantun", "ttantunesim", "ttantuno", "ttav",
    "ttesim", "tto", "un", "una", "undicesim", "undici", "unesim", "uno", "ventesim", "venti", "ventottesim",
    "ventotto", "ventun", "ventunesim", "ventuno", "virgola", "zero",
];
pub const DE: &[&str] = &[
    "acht", "achte", "achtzehn", "achtzehnte", "achtzig", "achtzigste", "billion", "billionste", "drei",
    "dreissig", "dreissigste", "dreizehn", "dreizehnte", "dreißig", "dreißigste", "dritte", "ein",
    "ein und zwanzig", "eins", "einundzwanzig", "elf", "elfte", "erste", "fünf", "fünfte", "fünfzehn",
    "fünfzehnte", "fünfzig", "fünfzigste", "hundert", "hundertste", "komma", "milliarde", "milliarden",
    "milliardste", "million", "millionen", "millionste", "neun", "neunte", "neunzehn", "neunzehnte",
    "neunzig", "neunzigste", "null", "sechs", "sechste", "sechzehn", "sechzehnte", "sechzig", "sechzigste",
    "sieben", "siebte", "siebzehn", "siebzehnte", "siebzig", "siebzigste", "tausend", "tausendste", "und",
    "vier", "vierte", "vierzehn", "vierzehnte", "vierzig", "vierzigste", "zehn", "zehnte", "zwanzig",
    "zwanzigste", "zwei", "zweite", "zwo", "zwölf", "zwölfte",
];
pub const NL: &[&str] = &[
    "acht", "achtste", "achttien", "achttiende", "biljoen", "biljoenste", "derde", "dertien", "dertiende",
    "dertig", "dertigste", "drie", "duizend", "duizendste", "e", "een", "eerste", "elf", "elfde", "en",
    "honderd", "honderdste", "komma", "miljard", "miljardste", "miljoen", "miljoenste", "negen",
    "negen en zeventig", "negende", "negenenzeventig", "negentien", "negentiende", "negentig", "negentigste",
    "nul", "tachtig", "tachtigste", "tien", "tiende", "twaalf", "twaalfde", "twee", "tweede", "twintig",
    "twintigste", "veertien", "veertiende", "veertig", "veertigste", "vier", "vierde", "vijf", "vijfde",
    "vijftien", "vijftiende", "vijftig", "vijftigste", "zes", "zesde", "zestien", "zestiende", "zestig",
    "zestigste", "zeven", "zevende", "zeventien", "zeventiende", "zeventig", "zeventigste", "één", "ën",
];

/// The linking ("insignificant") words of each interpreter, extracted once from the pinned tree.
pub const LINK_EN: &[&str] = &["and", "ha", "ah", "hu", "hum", "minus", "more", "ok", "plus", "so", "that's", "then", "uh", "well", "yeah", "yes", "is"];
pub const LINK_FR: &[&str] = &["alors", "bien", "c'est", "encore", "ensuite", "et", "euh", "heu", "ha", "ah", "hu", "hum", "moins", "ok", "oui", "plus", "puis", "voilà"];
pub const LINK_ES: &[&str] = &["pues", "y", "digo", "o", "sea", "entonces", "así", "que", "bueno", "es", "eso", "en", "fin", "luego", "mas", "menos", "pero", "vale", "eh", "ah", "oye", "ya", "hum", "ok", "sí", "no", "con", "son"];
pub const LINK_PT: &[&str] = &["eh", "então", "bem", "isso", "outra vez", "e", "uh", "ha", "ah", "hu", "um", "menos", "ok", "sim", "mais", "aí está", "digo", "ou", "seja", "aquele", "é", "aquilo", "em", "fim", "mais tarde", "mas", "ei", "agora", "hum", "não", "com", "são", "novamente"];
pub const LINK_IT: &[&str] = &["e", "ehm", "più", "poi", "ancora", "meno", "è", "ben"];
pub const LINK_DE: &[&str] = &["aber", "ah", "äh", "ähm", "also", "gut", "auch", "denn", "doch", "dort", "eben", "eh", "halt", "ja", "mal", "sehen", "naja", "nun", "ok", "schon", "so", "genau", "und", "noch"];
pub const LINK_NL: &[&str] = &["ja", "dus", "plus", "uh", "dan", "min", "dat", "is"];
