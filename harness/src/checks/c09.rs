//! C09 — lone-number policy (E-SEQ against the policy model of the statement).
use crate::explore;
use crate::infra::*;
use crate::langs::{self, L};
use crate::stream::{self, HTok, Occ};
use crate::vocab;
use serde_json::json;
use text2num::LangInterpreter;


pub const T: [f64; 10] = [f64::NEG_INFINITY, -1.0, 0.0, 1.0, 5.0, 9.0, 10.0, 1000.0, f64::INFINITY, f64::NAN];

/// Is the number an ordinal? Judged on what is reported to the user — the digit text carries an ordinal
/// marker — not on the flag (that the two agree is C06's business).
fn ordinal(l: L, o: &Occ) -> bool {
    match crate::model::numeral::read(l, &o.text) {
        Some(n) => n.marker.is_some(),
        None => o.is_ordinal,
    }
}

/// "small" as the statement defines it: a single digit or an ordinal, value strictly below t.
fn small(l: L, o: &Occ, t: f64) -> bool {
    (o.text.chars().count() == 1 || ordinal(l, o)) && o.value() < t
}

/// A token between two numbers keeps them adjacent iff it is whitespace, non-period punctuation,
/// a linking word or the conjunction.
fn transparent(l: L, lang: &text2num::Language, text: &str) -> bool {
    let low = text.to_lowercase();
    if stream::is_ws(text) || text == "-" {
        return true;
    }
    if !text.chars().any(|c| c.is_alphabetic()) {
        return text.trim() != ".";
    }
    // the linking words are the interpreter's documented list (extracted from the pinned tree), not whatever
    // `is_linking` answers: a lookup that loses some of them must not take the oracle with it
    // (a word-like literal of the current source tree that no alphabet knows is explored too, see the run function:
    // for those — and only for those — the library's own `is_linking` decides, so that a consistent extension of
    // the vocabulary is not an alarm while a word that is swallowed without being declared linking is)
    low == l.conj() || vocab::linking_words(l).iter().any(|w| *w == low) || (NEW_LITERALS.with(|n| n.borrow().iter().any(|w| *w == low)) && lang.is_linking(&low))
}
thread_local! {
    static NEW_LITERALS: std::cell::RefCell<Vec<String>> = const { std::cell::RefCell::new(Vec::new()) };
}

/// The policy: which of the threshold-0 occurrences `r` are rewritten at threshold `t`.
/// `dangling` = 0 is the statement; 1 and 2 (conjunctions in between also skipped) describe known finding KF-C09-dangling-sep
/// (a decimal-separator word directly after a plain cardinal is treated like a linking word).
pub fn policy(l: L, lang: &text2num::Language, toks: &[HTok], r: &[Occ], t: f64, dangling: u8) -> Vec<Occ> {
    let is_dangling_sep = |i: usize| -> bool {
        if dangling == 0 || toks[i].lower != l.sep() {
            return false;
        }
        // nearest previous token that the scanner does not skip
        let mut j = i;
        while j > 0 {
            j -= 1;
            let tx = &toks[j].text;
            if stream::is_ws(tx) || tx == "-" || (dangling == 2 && toks[j].lower == l.conj()) {
                continue;
            }
            return r.iter().any(|o| o.end == j + 1 && !ordinal(l, o) && !o.text.contains(l.mark()) && !o.text.starts_with("1/"));
        }
        false
    };
    let linked = |a: &Occ, b: &Occ| -> bool {
        ordinal(l, a) == ordinal(l, b) && (a.end..b.start).all(|i| transparent(l, lang, &toks[i].text) || is_dangling_sep(i))
    };
    let mut out = vec![];
    for (i, o) in r.iter().enumerate() {
        let adjacent = (i > 0 && linked(&r[i - 1], o)) || (i + 1 < r.len() && linked(o, &r[i + 1]));
        if !small(l, o, t) || adjacent {
            out.push(o.clone());
        }
    }
    out
}

/// Boundary thresholds: each value the small alphabet can produce, its two neighbouring doubles, and the
/// extremes of the double range (a threshold is compared as given, never rounded or truncated).
pub fn boundary_thresholds() -> Vec<f64> {
    let mut v: Vec<f64> = vec![f64::NEG_INFINITY, -f64::MAX, -1e-60, -0.0, f64::MIN_POSITIVE, 1e-60, 0.5, 2.5, 100000001.0, 9007199254740993.0, f64::MAX, f64::INFINITY];
    for x in [0.0f64, 1.0, 3.0, 5.0, 9.0, 20.0] {
        v.extend([x.next_down(), x, x.next_up()]);
    }
    v.sort_by(|a, b| a.partial_cmp(b).unwrap());
    v.dedup_by(|a, b| a.to_bits() == b.to_bits());
    v.push(f64::NAN);
    v
}

fn one_stream(ctx: &Ctx, acc: &mut Acc, l: L, lang: &text2num::Language, syms: &[&str]) {
    one_stream_t(ctx, acc, l, lang, syms, &T)
}

fn one_stream_t(ctx: &Ctx, acc: &mut Acc, l: L, lang: &text2num::Language, syms: &[&str], thrs: &[f64]) {
    acc.states += 1;
    let toks: Vec<HTok> = syms.iter().enumerate().map(|(i, w)| HTok::decorated(i, w)).collect();
    let base = match guard(|| stream::find(&toks, lang, 0.0)) {
        Ok(o) => o,
        Err(_) => return,
    };
    if base.iter().any(|o| o.end > toks.len() || o.start >= o.end) {
        return; // malformed spans are C06's business
    }
    if !base.is_empty() {
        acc.nontrivial += 1;
    }
    let mut prev: Option<(f64, Vec<Occ>)> = None;
    for &t in thrs {
        acc.transitions += toks.len() as u64;
        acc.traces += 1;
        let got = match guard(|| stream::find(&toks, lang, t)) {
            Ok(o) => o,
            Err(_) => continue,
        };
        let want = policy(l, lang, &toks, &base, t, 0);
        if t == 10.0 {
            acc.outcome(&got);
        }
        if got != want {
            ctx.report(acc, Violation {
                lang: l.code().into(),
                entry: "find_tokens".into(),
                input: serde_json::to_string(&syms).unwrap(),
                threshold: Some(t),
                clause: "a number is left in words exactly when it is small and isolated".into(),
                expected: stream::show_occs(&want),
                observed: format!(
                    "{}{}   (threshold 0: {})",
                    if got == policy(l, lang, &toks, &base, t, 1) || got == policy(l, lang, &toks, &base, t, 2) { "DANGLING-SEP-TRANSPARENT: " } else { "" },
                    stream::show_occs(&got),
                    stream::show_occs(&base)
                ),
            });
        }
        // monotonicity over consecutive (hence all) ordered thresholds, NaN excluded
        if let Some((pt, pocc)) = &prev {
            if !t.is_nan() && !got.iter().all(|o| pocc.contains(o)) {
                ctx.report(acc, Violation {
                    lang: l.code().into(),
                    entry: "find_tokens".into(),
                    input: serde_json::to_string(&syms).unwrap(),
                    threshold: Some(t),
                    clause: "raising the threshold never adds a rewrite".into(),
                    expected: format!("subset of the result at threshold {}: {}", thr_name(*pt), stream::show_occs(pocc)),
                    observed: stream::show_occs(&got),
                });
            }
        }
        if !t.is_nan() {
            prev = Some((t, got));
        }
    }
}

pub fn alphabet(l: L, n: usize) -> Vec<String> {
    let c = vocab::cls(l);
    // digit below/at thresholds 5 and 9, multi-digit, ordinals, linking, conjunction, ordinary, punctuation
    let v = vec![
        c.one, c.unit, c.tens, c.ordinary, ",".to_string(), c.small_ord, c.linking, ".".to_string(), c.sep, c.conj, c.unit2, c.large_ord, c.zero, c.hundred, " ".to_string(),
        c.teen, "!".to_string(), ". ".to_string(), format!("!{}", vocab::cls(l).unit), format!("!{}", vocab::cls(l).linking), "qw'fp".to_string(), "b2".to_string(), "xyzzy,".to_string(), ".\u{a0}".to_string(), "e-xyzzy".to_string(), "?!".to_string(), " .".to_string(), " . ".to_string(), "4x4".to_string(), "2nd".to_string(),
    ];
    let mut out: Vec<String> = vec![];
    for w in v {
        if !out.contains(&w) {
            out.push(w);
        }
    }
    out.truncate(n);
    if l == L::Es && n > 12 {
        // the Spanish '1/n' fraction form: never an ordinal, never a single digit, so rewritten at every threshold
        out.push("doceavo".to_string());
    }
    out
}

pub fn run(tier: Tier) -> i32 {
    let ctx = Ctx::new("C09", tier);
    let (n1, k1, n2, k2) = tier.pick((29usize, 4usize, 11usize, 6usize), (29, 5, 11, 7));
    let mut total = Acc::new();
    let mut alphas = vec![];
    let rmax = tier.pick(40usize, 300usize);
    let bt = boundary_thresholds();
    for l in langs::ALL {
        let lang = l.facade();
        let a1 = alphabet(l, n1);
        let a2 = alphabet(l, n2);
        alphas.push(json!({"lang": l.code(), "wide": a1, "deep": a2}));
        total.merge(explore::all_sequences2(&a1, k1, |syms, acc| one_stream(&ctx, acc, l, &lang, syms)));
        total.merge(explore::all_sequences2(&a2, k2, |syms, acc| {
            if syms.len() > k1 {
                one_stream(&ctx, acc, l, &lang, syms)
            }
        }));
        // long streams: every pattern of <= 2 deep-alphabet symbols repeated r times
        total.merge(explore::all_repetitions(&a2, 2, 2..=rmax, |syms, acc| one_stream(&ctx, acc, l, &lang, syms)));
        // every linking word of the interpreter between small numbers (all streams <= 3 over one, unit, the word, an ordinary word)
        for w in vocab::linking_words(l) {
            let c = vocab::cls(l);
            let a4: Vec<String> = vec![c.one.clone(), c.unit.clone(), w.to_string(), c.ordinary.clone()];
            total.merge(explore::all_sequences(&a4, 3, |syms, acc| {
                if syms.iter().any(|s| s == w) {
                    one_stream(&ctx, acc, l, &lang, syms)
                }
            }));
        }
        // word-like literals of the CURRENT source tree that no alphabet knows and that are not numbers on their own:
        // ordinary words unless the library's is_linking says otherwise
        {
            let c = vocab::cls(l);
            let news: Vec<String> = vocab::new_source_literals(l)
                .into_iter()
                .map(|w| w.to_lowercase())
                .filter(|w| !w.contains(' ') && w.chars().all(|ch| ch.is_alphabetic()) && !matches!(guard(|| text2num::text2digits(w, &lang)), Ok(Ok(_))))
                .collect();
            for w in &news {
                let a5: Vec<String> = vec![c.one.clone(), c.unit.clone(), c.tens.clone(), w.clone(), ",".to_string()];
                let wl = vec![w.clone()];
                total.merge(explore::all_sequences(&a5, 4, |syms, acc| {
                    if syms.iter().any(|s| s == w) {
                        NEW_LITERALS.with(|n| *n.borrow_mut() = wl.clone());
                        one_stream(&ctx, acc, l, &lang, syms);
                        NEW_LITERALS.with(|n| n.borrow_mut().clear());
                    }
                }));
            }
            alphas.push(json!({"lang": l.code(), "new_source_literals_explored": news}));
        }
        // runs: a small number, the same symbol repeated r times (every r up to 40), a small number
        {
            let c = vocab::cls(l);
            let mut acc_runs = Acc::new();
            for x in a2.iter().chain([c.linking.clone(), ",".to_string(), c.ordinary.clone(), " ".to_string()].iter()) {
                for (first, last) in [(&c.one, &c.unit), (&c.small_ord, &c.small_ord), (&c.tens, &c.one)] {
                    for r in 1..=40usize {
                        let mut syms: Vec<&str> = vec![first.as_str()];
                        syms.extend(std::iter::repeat(x.as_str()).take(r));
                        syms.push(last.as_str());
                        one_stream(&ctx, &mut acc_runs, l, &lang, &syms);
                    }
                }
            }
            total.merge(acc_runs);
        }
        // near misses of the linking words (an added or dropped final letter, a plural): ordinary words, so they
        // break the sequence — unless the result is itself a linking word or a number word
        {
            let c = vocab::cls(l);
            let list = vocab::linking_words(l);
            let mut near: Vec<String> = vec![];
            for w in list {
                let mut cands = vec![format!("{w}s"), format!("{w}e"), format!("{w}n"), format!("{w}-xyzzy"), format!("xyzzy-{w}")];
                if w.chars().count() > 2 {
                    let mut x = w.to_string();
                    x.pop();
                    cands.push(x);
                }
                for cand in cands {
                    let is_num = matches!(guard(|| text2num::text2digits(&cand, &lang)), Ok(Ok(_)));
                    if !is_num && !list.contains(&cand.as_str()) && cand != l.conj() && cand != l.sep() && !near.contains(&cand) && cand.chars().all(|ch| ch.is_alphabetic() || ch == '-') && !w.contains(' ') {
                        near.push(cand);
                    }
                }
            }
            for w in &near {
                let a4: Vec<String> = vec![c.one.clone(), c.unit.clone(), w.clone(), ",".to_string()];
                total.merge(explore::all_sequences(&a4, 3, |syms, acc| {
                    if syms.iter().any(|s| s == w) {
                        one_stream(&ctx, acc, l, &lang, syms)
                    }
                }));
            }
            alphas.push(json!({"lang": l.code(), "near_misses_of_linking_words": near.len()}));
        }
        // threshold sweep: every cardinal 0..=21 and every ordinal 1st..=45th, alone / between ordinary words / before a
        // comma, at every threshold k/2 for k in 0..=120 (so every value meets the thresholds just below, at and just
        // above it, and no particular threshold value is special)
        {
            let c = vocab::cls(l);
            let thr: Vec<f64> = (0..=120).map(|k| k as f64 / 2.0).collect();
            let mut words: Vec<String> = (0..=21u64).map(|n| crate::spell::spell(l, n, crate::spell::Var::default())).collect();
            for n in 1..=45u64 {
                if let Some(f) = crate::ordspell::ord_forms(l, n, crate::spell::Var::default()).first() {
                    words.push(f.text.clone());
                }
            }
            let mut acc_s = Acc::new();
            for w in &words {
                let parts: Vec<&str> = w.split(' ').collect();
                for frame in 0..6 {
                    let mut syms: Vec<&str> = vec![];
                    match frame {
                        0 => syms.extend(parts.iter().copied()),
                        1 | 2 => {
                            syms.push(c.ordinary.as_str());
                            syms.extend(parts.iter().copied());
                            if frame == 2 {
                                syms.push(",");
                            }
                            syms.push(c.ordinary.as_str());
                        }
                        // next to another small number: across a comma, across a linking word, across an ordinary word
                        _ => {
                            syms.push(c.ordinary.as_str());
                            syms.extend(parts.iter().copied());
                            syms.push(match frame {
                                3 => ",",
                                4 => c.linking.as_str(),
                                _ => c.ordinary.as_str(),
                            });
                            syms.push(c.unit.as_str());
                            syms.push(c.ordinary.as_str());
                        }
                    }
                    one_stream_t(&ctx, &mut acc_s, l, &lang, &syms, &thr);
                }
            }
            total.merge(acc_s);
        }
        // boundary thresholds on short streams of small numbers
        let c = vocab::cls(l);
        let a3: Vec<String> = vec![c.one, c.unit, c.unit2, c.zero, c.small_ord, c.large_ord, c.tens, c.ordinary, ",".to_string()];
        total.merge(explore::all_sequences2(&a3, 4, |syms, acc| one_stream_t(&ctx, acc, l, &lang, syms, &bt)));
        total.sample(json!({"lang": l.code(), "stream": a1.iter().take(5).collect::<Vec<_>>()}));
    }
    let cov = json!({
        "exhaustive": true,
        "rule": "every token stream of length <= k over the class alphabet x every threshold of T; result compared with the policy model computed from the threshold-0 result; monotonicity checked over consecutive thresholds; non-trivial = streams with at least one number",
        "bounds": {"wide_alphabet": n1, "wide_depth": k1, "deep_alphabet": n2, "deep_depth": k2, "long_streams": {"alphabet": "deep", "pattern_depth": 2, "repetitions_up_to": rmax}},
        "thresholds": T.iter().map(|t| thr_name(*t)).collect::<Vec<_>>(),
        "boundary_stage": {"alphabet": "one, unit, unit2, zero, small ordinal, large ordinal, tens, ordinary word, comma", "depth": 4, "thresholds": bt.iter().map(|t| if t.is_finite() { format!("{t:e}") } else { thr_name(*t) }).collect::<Vec<_>>()},
        "threshold_sweep": {"numbers": "cardinals 0..=21, ordinals 1st..=45th (standard spelling, first inflection)", "frames": ["alone", "between ordinary words", "before a comma", "comma, then a unit", "linking word, then a unit", "ordinary word, then a unit"], "thresholds": "k/2 for k in 0..=120"},
        "alphabets": alphas,
    });
    ctx.finish(total, cov, vec![
        "the language's linking-word set is the interpreter's list as extracted from the pinned tree (harness/src/vocab_lits.rs LINK_*), each word of it is explored between small numbers; the conjunction counts as linking".into(),
        "digit tokens are not in this alphabet; '!word' is a token flagged not-a-number-part (an ordinary word for the policy); words mixing letters with an apostrophe, a hyphen, a digit or glued punctuation are ordinary words too; the decimal-separator word is (a separator that starts no fraction is an ordinary word)".into(),
    ])
}
