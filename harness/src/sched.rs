//! E-SCHED: deviation-bounded exhaustive scheduler over real OS threads.
//! Exactly one worker runs at a time; workers hand control back at *scheduling points*
//! (call boundaries and every callback the library makes into harness-owned code).
use std::cell::RefCell;
use std::sync::{Arc, Condvar, Mutex};
use std::time::{Duration, Instant};

struct St {
    /// 0 = running, 1 = waiting at a point, 2 = done
    status: Vec<u8>,
    turn: Option<usize>,
    free_run: bool,
}

pub struct Sched {
    m: Mutex<St>,
    cv: Condvar,
}

thread_local! {
    static GATE: RefCell<Option<(Arc<Sched>, usize)>> = const { RefCell::new(None) };
}

/// A scheduling point: called by harness-owned callbacks running inside library calls.
pub fn point() {
    let g = GATE.with(|g| g.borrow().clone());
    if let Some((s, tid)) = g {
        s.point(tid);
    }
}

impl Sched {
    fn new(n: usize) -> Arc<Sched> {
        Arc::new(Sched { m: Mutex::new(St { status: vec![0; n], turn: None, free_run: false }), cv: Condvar::new() })
    }
    fn point(&self, tid: usize) {
        let mut st = self.m.lock().unwrap_or_else(|e| e.into_inner());
        if st.free_run {
            return;
        }
        st.status[tid] = 1;
        self.cv.notify_all();
        while st.turn != Some(tid) && !st.free_run {
            st = self.cv.wait(st).unwrap_or_else(|e| e.into_inner());
        }
        st.status[tid] = 0;
        st.turn = None;
        self.cv.notify_all();
    }
    fn done(&self, tid: usize) {
        let mut st = self.m.lock().unwrap_or_else(|e| e.into_inner());
        st.status[tid] = 2;
        self.cv.notify_all();
    }
}

#[derive(Clone, Debug)]
pub struct Point {
    /// canonical order: the running thread first if still enabled, then ascending ids
    pub enabled: Vec<usize>,
    pub running_still_enabled: bool,
}

pub struct Execution<R> {
    pub points: Vec<Point>,
    pub choices: Vec<usize>,
    pub results: Vec<R>,
    pub infeasible: bool,
}

/// One thread body: runs with the gate installed; must call `point()` (directly or through callbacks).
pub type Body<R> = Arc<dyn Fn() -> R + Send + Sync>;

const STEP_TIMEOUT: Duration = Duration::from_millis(1500);

/// Run the program once: follow `prefix` (indices into each point's `enabled`), then choice 0.
pub fn run_once<R: Send + 'static + Default>(bodies: &[Body<R>], prefix: &[usize]) -> Execution<R> {
    let n = bodies.len();
    let s = Sched::new(n);
    let mut handles = vec![];
    for (tid, b) in bodies.iter().enumerate() {
        let s2 = s.clone();
        let b = b.clone();
        handles.push(std::thread::spawn(move || {
            GATE.with(|g| *g.borrow_mut() = Some((s2.clone(), tid)));
            s2.point(tid); // initial point: the controller decides who starts
            let r = std::panic::catch_unwind(std::panic::AssertUnwindSafe(|| b()));
            GATE.with(|g| *g.borrow_mut() = None);
            s2.done(tid);
            r.ok()
        }));
    }
    let mut points = vec![];
    let mut choices = vec![];
    let mut prev: Option<usize> = None;
    let mut infeasible = false;
    'outer: loop {
        // wait until nobody is running
        let deadline = Instant::now() + STEP_TIMEOUT;
        let mut st = s.m.lock().unwrap_or_else(|e| e.into_inner());
        while st.turn.is_some() || st.status.iter().any(|&x| x == 0) {
            let now = Instant::now();
            if now >= deadline {
                // a thread is blocked on something the scheduler does not own
                st.free_run = true;
                s.cv.notify_all();
                infeasible = true;
                break 'outer;
            }
            let (g, _) = s.cv.wait_timeout(st, deadline - now).unwrap_or_else(|e| e.into_inner());
            st = g;
        }
        let mut enabled: Vec<usize> = (0..n).filter(|&t| st.status[t] == 1).collect();
        if enabled.is_empty() {
            break;
        }
        let running_still_enabled = prev.map_or(false, |p| enabled.contains(&p));
        if let (true, Some(p)) = (running_still_enabled, prev) {
            enabled.retain(|&t| t != p);
            enabled.insert(0, p);
        }
        let k = points.len();
        let choice = if k < prefix.len() { prefix[k] } else { 0 };
        if choice >= enabled.len() {
            // divergence while replaying a prefix: hard error
            st.free_run = true;
            s.cv.notify_all();
            drop(st);
            for h in handles {
                let _ = h.join();
            }
            panic!("E-SCHED: replay diverged at point {k}: choice {choice} of {enabled:?}");
        }
        let tid = enabled[choice];
        points.push(Point { enabled, running_still_enabled });
        choices.push(choice);
        prev = Some(tid);
        st.turn = Some(tid);
        s.cv.notify_all();
    }
    let mut results = vec![];
    for h in handles {
        results.push(h.join().ok().flatten().unwrap_or_default());
    }
    Execution { points, choices, results, infeasible }
}

pub struct Exploration {
    pub executions: u64,
    pub infeasible: u64,
    pub max_points: usize,
}

/// Explore every schedule with at most `bound` preemptions (CHESS-style, by re-execution).
/// `check` is called with (choices, results) of every complete feasible execution.
pub fn explore<R: Send + 'static + Default>(bodies: &[Body<R>], bound: usize, check: &mut dyn FnMut(&[usize], &[R])) -> Exploration {
    let mut ex = Exploration { executions: 0, infeasible: 0, max_points: 0 };
    fn preemptions(points: &[Point], choices: &[usize], upto: usize) -> usize {
        (0..upto).filter(|&i| points[i].running_still_enabled && choices[i] != 0).count()
    }
    fn rec<R: Send + 'static + Default>(bodies: &[Body<R>], bound: usize, prefix: Vec<usize>, ex: &mut Exploration, check: &mut dyn FnMut(&[usize], &[R])) {
        let x = run_once(bodies, &prefix);
        ex.executions += 1;
        ex.max_points = ex.max_points.max(x.points.len());
        if x.infeasible {
            ex.infeasible += 1;
            return;
        }
        check(&x.choices, &x.results);
        for i in prefix.len()..x.points.len() {
            let p = &x.points[i];
            let mut cost = preemptions(&x.points, &x.choices, i);
            if p.running_still_enabled {
                cost += 1;
            }
            if cost > bound {
                continue;
            }
            for alt in 1..p.enabled.len() {
                let mut np: Vec<usize> = x.choices[..i].to_vec();
                np.push(alt);
                rec(bodies, bound, np, ex, check);
            }
        }
    }
    rec(bodies, bound, vec![], &mut ex, check);
    ex
}
