//! C12 — digit builder (E-STATE: explicit-state BFS over the real DigitString, against a value model).
use crate::infra::*;
use rayon::prelude::*;
use serde_json::json;
use std::collections::HashMap;
use text2num::digit_string::DigitString;

#[derive(Clone, Debug, PartialEq)]
pub enum Op {
    Put(&'static [u8]),
    At(u8, usize),
    Shift(usize),
    Fput(&'static [u8]),
    Push(&'static [u8]),
    Freeze,
    Reset,
}

impl Op {
    pub fn name(&self) -> String {
        match self {
            Op::Put(d) => format!("put({:?})", std::str::from_utf8(d).unwrap()),
            Op::At(d, p) => format!("put_digit_at('{}',{})", *d as char, p),
            Op::Shift(p) => format!("shift({p})"),
            Op::Fput(d) => format!("fput({:?})", std::str::from_utf8(d).unwrap()),
            Op::Push(d) => format!("push({:?})", std::str::from_utf8(d).unwrap()),
            Op::Freeze => "freeze()".into(),
            Op::Reset => "reset()".into(),
        }
    }
}

pub fn alphabet() -> Vec<Op> {
    let mut ops = vec![];
    for d in [&b"0"[..], b"1", b"5", b"10", b"12", b"00", b"100", b"123", b"", b"123000000", b"000000001"] {
        ops.push(Op::Put(d));
    }
    for d in [b'0', b'1', b'7'] {
        for p in [0usize, 1, 2, 3, 5] {
            ops.push(Op::At(d, p));
        }
    }
    for p in [0usize, 1, 2, 3, 6, 9] {
        ops.push(Op::Shift(p));
    }
    for d in [&b"0"[..], b"7", b"70", b"700", b""] {
        ops.push(Op::Fput(d));
    }
    for d in [&b"0"[..], b"3"] {
        ops.push(Op::Push(d));
    }
    ops.push(Op::Freeze);
    ops.push(Op::Reset);
    ops
}

/// Stage (d): no argument value is special — every digit string of 1..=3 digits (leading zeros included) for put,
/// fput and push, every digit at every position 0..=9, every shift 0..=12.
pub fn sweep_alphabet() -> Vec<Op> {
    let mut ops = vec![];
    let mut strs: Vec<&'static [u8]> = vec![];
    for len in 1..=3usize {
        for n in 0..10u32.pow(len as u32) {
            let s: &'static str = Box::leak(format!("{n:0len$}").into_boxed_str());
            strs.push(s.as_bytes());
        }
    }
    for d in &strs {
        ops.push(Op::Put(d));
    }
    for d in &strs {
        ops.push(Op::Fput(d));
    }
    for d in &strs {
        ops.push(Op::Push(d));
    }
    for d in b'0'..=b'9' {
        for p in 0..=9usize {
            ops.push(Op::At(d, p));
        }
    }
    for p in 0..=12usize {
        ops.push(Op::Shift(p));
    }
    ops
}

fn apply(b: &mut DigitString, op: &Op) -> Result<(), ()> {
    match op {
        Op::Put(d) => b.put(d).map_err(|_| ()),
        Op::At(d, p) => b.put_digit_at(*d, *p).map_err(|_| ()),
        Op::Shift(p) => b.shift(*p).map_err(|_| ()),
        Op::Fput(d) => b.fput(d).map_err(|_| ()),
        Op::Push(d) => b.push(d).map_err(|_| ()),
        Op::Freeze => {
            b.freeze();
            Ok(())
        }
        Op::Reset => {
            b.reset();
            Ok(())
        }
    }
}

/// canonical state: (buffer, leading zeros, frozen)
type Fp = (Vec<u8>, usize, bool);

fn obs(b: &DigitString, frozen: bool) -> Fp {
    let buf: Vec<u8> = b.to_vec();
    let lz = b.len().saturating_sub(buf.len());
    (buf, lz, frozen)
}

/// Every query of the public API, encoded as bytes; a panicking query is encoded as 0xFF.
fn queries(b: &DigitString, panicked: &mut Option<String>) -> Vec<u8> {
    let mut s: Vec<u8> = Vec::with_capacity(160);
    let mut q = |name: &str, f: &mut dyn FnMut(&mut Vec<u8>)| {
        let mut tmp = vec![];
        match guard(|| f(&mut tmp)) {
            Ok(()) => s.extend_from_slice(&tmp),
            Err(_) => {
                s.push(0xFF);
                if panicked.is_none() {
                    *panicked = Some(name.to_string());
                }
            }
        }
        s.push(b'|');
    };
    q("to_string", &mut |o| o.extend_from_slice(b.to_string().as_bytes()));
    q("len", &mut |o| o.extend_from_slice(&(b.len() as u32).to_le_bytes()));
    q("is_empty", &mut |o| o.push(b.is_empty() as u8));
    q("is_null", &mut |o| o.push(b.is_null() as u8));
    q("is_ordinal", &mut |o| o.push(b.is_ordinal() as u8));
    q("deref", &mut |o| o.extend_from_slice(b));
    for k in [0usize, 1, 2, 3, 8] {
        q(&format!("peek({k})"), &mut |o| o.extend_from_slice(b.peek(k)));
        q(&format!("is_free({k})"), &mut |o| o.push(b.is_free(k) as u8));
    }
    for p in [0usize, 1, 2, 5] {
        q(&format!("is_position_free({p})"), &mut |o| o.push(b.is_position_free(p) as u8));
    }
    for a in 0..8usize {
        for e in (a + 1)..=8 {
            q(&format!("is_range_free({a},{e})"), &mut |o| o.push(b.is_range_free(a, e) as u8));
        }
    }
    s
}

fn val(buf: &[u8]) -> u128 {
    buf.iter().fold(0u128, |a, &c| a.wrapping_mul(10).wrapping_add((c.wrapping_sub(b'0')) as u128))
}
fn subseq_nonzero(old: &str, new: &str) -> bool {
    let mut it = new.chars();
    old.chars().filter(|&c| c != '0').all(|c| it.any(|d| d == c))
}

struct StepResult {
    next: Option<Fp>,
    viols: Vec<(String, String, String)>, // (clause, expected, observed)
}

fn replay_path(ops: &[Op], path: &[u8]) -> (DigitString, bool) {
    let mut b = DigitString::new();
    let mut frozen = false;
    for &i in path {
        let _ = apply(&mut b, &ops[i as usize]);
        match ops[i as usize] {
            Op::Freeze => frozen = true,
            Op::Reset => frozen = false,
            _ => {}
        }
    }
    (b, frozen)
}

fn step(ops: &[Op], fp: &Fp, path: &[u8], oi: usize) -> StepResult {
    let op = &ops[oi];
    let mut viols = vec![];
    let built = guard(|| replay_path(ops, path));
    let (mut b, frozen) = match built {
        Ok(x) => x,
        Err(p) => {
            return StepResult { next: None, viols: vec![("replay of a previously reached state panicked".into(), "no panic".into(), p)] }
        }
    };
    if obs(&b, frozen) != *fp {
        // hard error: the exploration is not deterministic
        return StepResult {
            next: None,
            viols: vec![("MACHINERY: replay diverged".into(), format!("{fp:?}"), format!("{:?}", obs(&b, frozen)))],
        };
    }
    let mut qp = None;
    let before_q = queries(&b, &mut qp);
    if let Some(name) = qp {
        viols.push(("no query panics".into(), "a value".into(), format!("PANIC in {name}")));
    }
    let before_s = b.to_string();
    let before_v = val(&b);
    let r = guard(|| apply(&mut b, op));
    let r = match r {
        Ok(r) => r,
        Err(p) => {
            viols.push(("no operation panics".into(), "Ok or Err".into(), p));
            return StepResult { next: None, viols };
        }
    };
    let mut f2 = frozen;
    match op {
        Op::Freeze => f2 = true,
        Op::Reset => f2 = false,
        _ => {}
    }
    let after_s = b.to_string();
    if !after_s.bytes().all(|c| c.is_ascii_digit()) || after_s.len() != b.len() {
        viols.push((
            "rendering is ASCII digits and len() equals its length".into(),
            format!("digits, len={}", after_s.len()),
            format!("{after_s:?}, len()={}", b.len()),
        ));
    }
    let mutating = !matches!(op, Op::Freeze | Op::Reset);
    match &r {
        Err(()) => {
            if !frozen && matches!(op, Op::Fput(_) | Op::Push(_)) {
                viols.push(("fput and push never fail unless the builder is frozen (as documented)".into(), "Ok".into(), format!("Err on {before_s:?}")));
            }
            let mut qp2 = None;
            let after_q = queries(&b, &mut qp2);
            if after_q != before_q {
                viols.push(("an operation that reports an error changes nothing".into(), before_s.clone(), after_s.clone()));
            }
        }
        Ok(()) => {
            if frozen && mutating && !matches!(op, Op::Shift(0)) {
                viols.push(("once frozen every mutating operation is refused".into(), "Err".into(), format!("Ok, {before_s} -> {after_s}")));
            }
        }
    }
    if r.is_ok() && !frozen {
        match op {
            Op::Put(d) => {
                if *d == b"0" {
                    if before_v != 0 || !fp.0.is_empty() {
                        viols.push(("a zero is accepted only while the value is still zero".into(), "Err".into(), format!("Ok, {before_s} -> {after_s}")));
                    } else if after_s != format!("0{before_s}") {
                        viols.push(("leading zeros are kept".into(), format!("0{before_s}"), after_s.clone()));
                    }
                } else if val(&b) != before_v + val(d) || !subseq_nonzero(&before_s, &after_s) {
                    viols.push(("a successful put adds the new digits into free positions".into(), format!("value {}", before_v + val(d)), after_s.clone()));
                } else if after_s.len() < before_s.len() || !after_s.starts_with(&"0".repeat(fp.1)) {
                    viols.push(("leading zeros are kept".into(), format!("{} leading zeros", fp.1), after_s.clone()));
                }
            }
            Op::At(d, p) => {
                let add = ((*d - b'0') as u128) * 10u128.pow(*p as u32);
                if val(&b) != before_v + add || !subseq_nonzero(&before_s, &after_s) || *d == b'0' {
                    viols.push(("a successful put_digit_at adds exactly that digit at a free position".into(), format!("value {}", before_v + add), after_s.clone()));
                } else if !after_s.starts_with(&"0".repeat(fp.1)) {
                    viols.push(("leading zeros are kept".into(), format!("{} leading zeros", fp.1), after_s.clone()));
                }
            }
            Op::Shift(p) => {
                let m = 10u128.pow(*p as u32);
                let low = before_v % m;
                let a = before_v - low + low * m;
                let bb = before_v + m;
                let ok = *p == 0 && after_s == before_s || *p > 0 && (val(&b) == a && low != 0 || low == 0 && (val(&b) == bb || val(&b) == a));
                if !ok || !subseq_nonzero(&before_s, &after_s) {
                    viols.push((
                        "a successful shift(p) multiplies the rightmost p-digit group (or an implicit 1) by 10^p".into(),
                        if low == 0 { format!("value {bb} (or {a})") } else { format!("value {a}") },
                        after_s.clone(),
                    ));
                } else if !after_s.starts_with(&"0".repeat(fp.1)) {
                    viols.push(("leading zeros are kept".into(), format!("{} leading zeros", fp.1), after_s.clone()));
                }
            }
            Op::Fput(_) | Op::Push(_) => {
                // forced placements may overwrite digits; the leading zeros counted so far are still kept
                if !after_s.starts_with(&"0".repeat(fp.1)) {
                    viols.push(("leading zeros are kept".into(), format!("{} leading zeros", fp.1), format!("{before_s} -> {after_s}")));
                }
                if let Op::Push(d) = op {
                    let want = format!("{before_s}{}", std::str::from_utf8(d).unwrap());
                    if after_s != want {
                        viols.push(("push appends its digits at the right of the digits already there (as documented)".into(), want, after_s.clone()));
                    }
                }
            }
            _ => {}
        }
    }
    if matches!(op, Op::Reset) && (!after_s.is_empty() || b.len() != 0 || !b.is_empty()) {
        viols.push(("after reset the builder is empty".into(), "\"\"".into(), after_s.clone()));
    }
    StepResult { next: Some(obs(&b, f2)), viols }
}

const LEN_BOUND: usize = 24;
/// repetitions in the chains of stage (b): long enough to pass 20 digits (beyond u64 and f64 precision)
const CHAIN: usize = 24;

pub fn run(tier: Tier) -> i32 {
    let ctx = Ctx::new("C12", tier);
    let ops = alphabet();
    let depth = match std::env::var("C12_DEPTH").ok().and_then(|s| s.parse().ok()) { Some(d) => d, None => tier.pick(6usize, 7) };
    let mut seen: HashMap<Fp, Vec<u8>> = HashMap::new();
    let init: Fp = (vec![], 0, false);
    seen.insert(init.clone(), vec![]);
    let mut frontier: Vec<(Fp, Vec<u8>)> = vec![(init, vec![])];
    let mut acc = Acc::new();
    let mut completed = 0usize;
    let mut closed = false;
    let mut dropped_by_len = 0u64;
    for d in 0..depth {
        if frontier.is_empty() {
            closed = true;
            break;
        }
        // all (state, op) pairs of this level, in parallel; results merged in order
        let results: Vec<Vec<(usize, StepResult)>> = frontier
            .par_iter()
            .map(|(fp, path)| (0..ops.len()).map(|oi| (oi, step(&ops, fp, path, oi))).collect())
            .collect();
        let mut next_frontier = vec![];
        for ((fp, path), rs) in frontier.iter().zip(results.into_iter()) {
            for (oi, r) in rs {
                acc.transitions += 1;
                acc.traces += 1;
                for (clause, expected, observed) in r.viols {
                    if clause.starts_with("MACHINERY") {
                        println!("machinery: {clause}: {expected} vs {observed}");
                        return 2;
                    }
                    let mut names: Vec<String> = path.iter().map(|&i| ops[i as usize].name()).collect();
                    names.push(ops[oi].name());
                    ctx.report(&mut acc, Violation {
                        lang: "-".into(),
                        entry: "digit_ops".into(),
                        input: names.join("; "),
                        threshold: None,
                        clause,
                        expected,
                        observed,
                    });
                }
                if let Some(nfp) = r.next {
                    acc.outcome(&nfp);
                    if nfp.0.len() > LEN_BOUND {
                        dropped_by_len += 1;
                        continue;
                    }
                    if !seen.contains_key(&nfp) {
                        let mut np = path.clone();
                        np.push(oi as u8);
                        if acc.samples.len() < 6 && np.len() >= 3 && seen.len() % 977 == 0 {
                            acc.sample(json!({"ops": np.iter().map(|&i| ops[i as usize].name()).collect::<Vec<_>>(), "reaches": format!("{:?}", String::from_utf8_lossy(&nfp.0)), "leading_zeros": nfp.1, "frozen": nfp.2}));
                        }
                        seen.insert(nfp.clone(), np.clone());
                        next_frontier.push((nfp, np));
                    }
                }
                let _ = fp;
            }
        }
        completed = d + 1;
        frontier = next_frontier;
    }
    if frontier.is_empty() {
        closed = true;
    }
    // ---- (a) after reset the builder behaves as a new one: for every state reached within 3 operations, reset it
    // and compare the outcome of every operation with the outcome on DigitString::new()
    let behaviour = |path: &[u8]| -> Vec<(bool, Option<Fp>)> {
        (0..ops.len())
            .map(|oi| {
                let r = guard(|| {
                    let (mut b, mut frozen) = replay_path(&ops, path);
                    let ok = apply(&mut b, &ops[oi]).is_ok();
                    match ops[oi] {
                        Op::Freeze => frozen = true,
                        Op::Reset => frozen = false,
                        _ => {}
                    }
                    (ok, obs(&b, frozen))
                });
                match r {
                    Ok((ok, fp)) => (ok, Some(fp)),
                    Err(_) => (false, None),
                }
            })
            .collect()
    };
    let reset_idx = ops.iter().position(|o| *o == Op::Reset).unwrap() as u8;
    let fresh = behaviour(&[]);
    let mut shallow: Vec<Vec<u8>> = seen.values().filter(|p| p.len() <= 3).cloned().collect();
    shallow.sort();
    for path in &shallow {
        let mut p2 = path.clone();
        p2.push(reset_idx);
        acc.transitions += ops.len() as u64;
        acc.traces += 1;
        let got = behaviour(&p2);
        if let Some(oi) = (0..ops.len()).find(|&i| got[i] != fresh[i]) {
            let mut names: Vec<String> = p2.iter().map(|&i| ops[i as usize].name()).collect();
            names.push(ops[oi].name());
            ctx.report(&mut acc, Violation {
                lang: "-".into(),
                entry: "digit_ops".into(),
                input: names.join("; "),
                threshold: None,
                clause: "after reset the builder behaves as a new one".into(),
                expected: format!("{:?} as on DigitString::new()", fresh[oi]),
                observed: format!("{:?}", got[oi]),
            });
        }
    }
    // ---- (b) repetition chains: from every state reached within 2 operations, each operation repeated 24 times
    // (accumulating effects such as many leading zeros, repeated shifts or pushes), all invariants on every step
    let mut chain_steps = 0u64;
    let mut starts: Vec<(Fp, Vec<u8>)> = seen.iter().filter(|(_, p)| p.len() <= 2).map(|(f, p)| (f.clone(), p.clone())).collect();
    starts.sort_by(|a, b| a.1.cmp(&b.1));
    let chain_results: Vec<Vec<(Vec<u8>, usize, Vec<(String, String, String)>)>> = starts
        .par_iter()
        .map(|(fp0, path0)| {
            let mut out = vec![];
            for oi in 0..ops.len() {
                let (mut fp, mut path) = (fp0.clone(), path0.clone());
                for _ in 0..CHAIN {
                    let r = step(&ops, &fp, &path, oi);
                    if !r.viols.is_empty() {
                        out.push((path.clone(), oi, r.viols));
                    }
                    match r.next {
                        Some(n) if n.0.len() <= 40 => {
                            fp = n;
                            path.push(oi as u8);
                        }
                        _ => break,
                    }
                }
            }
            out
        })
        .collect();
    for part in chain_results {
        for (path, oi, viols) in part {
            for (clause, expected, observed) in viols {
                let mut names: Vec<String> = path.iter().map(|&i| ops[i as usize].name()).collect();
                names.push(ops[oi].name());
                ctx.report(&mut acc, Violation { lang: "-".into(), entry: "digit_ops".into(), input: names.join("; "), threshold: None, clause, expected, observed });
            }
        }
    }
    // ---- (c) very deep single chains on one builder (counters that wrap, buffers that are capped): 70 000 times the
    // same placement; the rendering, its length and len() are compared with the count every 1 000 steps
    for (name, digit, on_empty) in [("put(\"0\")", b"0", true), ("push(\"3\")", b"3", false), ("push(\"0\")", b"0", false)] {
        let r = guard(|| {
            let mut b = DigitString::new();
            for i in 1..=70_000usize {
                let ok = if on_empty { b.put(digit).is_ok() } else { b.push(digit).is_ok() };
                if !ok {
                    return Some((i, "the operation was refused".to_string()));
                }
                if i % 1000 == 0 || i == 65_535 || i == 65_536 || i == 65_537 {
                    let s = b.to_string();
                    if b.len() != i || s.len() != i || !s.bytes().all(|c| c == digit[0]) {
                        return Some((i, format!("len() = {}, rendering of {} characters", b.len(), s.len())));
                    }
                }
            }
            None
        });
        chain_steps += 70_000;
        let bad = match r {
            Ok(None) => None,
            Ok(Some((i, what))) => Some(format!("after {i} operations: {what}")),
            Err(p) => Some(format!("PANIC: {p}")),
        };
        if let Some(observed) = bad {
            ctx.report(&mut acc, Violation { lang: "-".into(), entry: "digit_ops".into(), input: format!("{name} repeated 70000 times on a new builder"), threshold: None, clause: "rendering is ASCII digits and len() equals its length; leading zeros are kept; push appends".into(), expected: "after i operations: i digits".into(), observed });
        }
    }
    // ---- (d) argument sweep: from every state reached within 2 operations, every operation of the sweep alphabet
    // (all 1-3 digit strings for put / fput / push, all digits x positions, all shifts), all invariants on the step
    let mut ops2 = ops.clone();
    let base_n = ops2.len();
    ops2.extend(sweep_alphabet());
    let sweep_results: Vec<Vec<(Vec<u8>, usize, Vec<(String, String, String)>)>> = starts
        .par_iter()
        .map(|(fp0, path0)| {
            let mut out = vec![];
            for oi in base_n..ops2.len() {
                let r = step(&ops2, fp0, path0, oi);
                if !r.viols.is_empty() {
                    out.push((path0.clone(), oi, r.viols));
                }
            }
            out
        })
        .collect();
    for part in sweep_results {
        for (path, oi, viols) in part {
            for (clause, expected, observed) in viols {
                let mut names: Vec<String> = path.iter().map(|&i| ops2[i as usize].name()).collect();
                names.push(ops2[oi].name());
                ctx.report(&mut acc, Violation { lang: "-".into(), entry: "digit_ops".into(), input: names.join("; "), threshold: None, clause, expected, observed });
            }
        }
    }
    let sweep_steps = (starts.len() * (ops2.len() - base_n)) as u64;
    acc.transitions += sweep_steps;
    acc.traces += sweep_steps;
    acc.count("argument_sweep_steps", sweep_steps);
    // ---- (e) wide groups: a high digit at position P (or none), a low group of 1..=15 digits (three fillings), then
    // shift(p) for every p in 0..=16 and put / fput / push of a 10- and a 13-digit string: groups wider than any
    // machine word or scratch buffer
    let mut wide_steps = 0u64;
    {
        let mut wops: Vec<Op> = vec![];
        let highs: Vec<Option<usize>> = std::iter::once(None).chain((13..=32usize).map(Some)).collect();
        for h in highs.iter().flatten() {
            wops.push(Op::At(b'1', *h));
        }
        let n_high = wops.len();
        let mut lows: Vec<&'static [u8]> = vec![];
        for len in 1..=15usize {
            for filling in [&"123456789123456"[..len], &"999999999999999"[..len], &"100000000000000"[..len]] {
                let st: &'static str = Box::leak(filling.to_string().into_boxed_str());
                lows.push(st.as_bytes());
            }
        }
        for d in &lows {
            wops.push(Op::Put(d));
        }
        let n_low = lows.len();
        let first_probe = wops.len();
        for p in 0..=16usize {
            wops.push(Op::Shift(p));
        }
        for d in [&b"1234567891"[..], b"1234567891234"] {
            wops.push(Op::Put(d));
            wops.push(Op::Fput(d));
            wops.push(Op::Push(d));
        }
        let mut cases: Vec<Vec<u8>> = vec![];
        for hi in 0..=n_high {
            for lo in 0..n_low {
                let mut path: Vec<u8> = vec![];
                if hi > 0 {
                    path.push((hi - 1) as u8);
                }
                path.push((n_high + lo) as u8);
                cases.push(path);
            }
        }
        let wide_results: Vec<Vec<(Vec<u8>, usize, Vec<(String, String, String)>)>> = cases
            .par_iter()
            .map(|path| {
                let mut out = vec![];
                let Ok((b, frozen)) = guard(|| replay_path(&wops, path)) else { return out };
                let fp = obs(&b, frozen);
                for oi in first_probe..wops.len() {
                    let r = step(&wops, &fp, path, oi);
                    if !r.viols.is_empty() {
                        out.push((path.clone(), oi, r.viols));
                    }
                }
                out
            })
            .collect();
        wide_steps += (cases.len() * (wops.len() - first_probe)) as u64;
        for part in wide_results {
            for (path, oi, viols) in part {
                for (clause, expected, observed) in viols {
                    let mut names: Vec<String> = path.iter().map(|&i| wops[i as usize].name()).collect();
                    names.push(wops[oi].name());
                    ctx.report(&mut acc, Violation { lang: "-".into(), entry: "digit_ops".into(), input: names.join("; "), threshold: None, clause, expected, observed });
                }
            }
        }
    }
    acc.transitions += wide_steps;
    acc.traces += wide_steps;
    acc.count("wide_group_steps", wide_steps);
    chain_steps += (starts.len() * ops.len() * CHAIN) as u64;
    acc.transitions += chain_steps;
    acc.traces += chain_steps;
    acc.count("repetition_chain_steps_upper_bound", chain_steps);
    acc.count("reset_behaviour_comparisons", shallow.len() as u64);
    acc.states = seen.len() as u64;
    acc.nontrivial = seen.len() as u64;
    acc.evals = acc.transitions;
    acc.sample(json!({"ops": ["put(\"5\")", "shift(3)", "put(\"12\")"], "reaches": "5012"}));
    let cov = json!({
        "exhaustive": true,
        "rule": "explicit-state BFS from DigitString::new(); state = (buffer bytes, leading-zero count, frozen) observed through the public API; every op of the alphabet is applied in every reached state (replayed from new() on a fresh real object); all invariants evaluated on every transition; non-trivial = distinct canonical states",
        "alphabet_size": ops.len(),
        "alphabet": ops.iter().map(|o| o.name()).collect::<Vec<_>>(),
        "depth_completed": completed,
        "frontier_closed": closed,
        "unexpanded_frontier_states": frontier.len(),
        "length_bound": LEN_BOUND,
        "successors_beyond_length_bound": dropped_by_len,
        "queries_per_state": 5 + 10 + 4 + 36 + 1,
        "extra": "every state within 3 operations is reset and compared operation by operation with a new builder; from every state within 2 operations each operation is repeated 24 times",
        "wide_groups": "a high digit at position 13..=32 (or none) x a low group of 1..=15 digits (3 fillings) x {shift(0..=16), put / fput / push of a 10- and a 13-digit string}",
        "argument_sweep": "from every state within 2 operations: put / fput / push of every digit string of 1..=3 digits (leading zeros included), put_digit_at of every digit at every position 0..=9, shift(0..=12)",
    });
    ctx.finish(acc, cov, vec![
        "only ASCII digit arguments are fed; is_range_free's documented precondition start < end is honoured".into(),
        "error kinds are not compared; fput (a forced placement that may overwrite) is required to keep the rendering well-formed, to keep the leading zeros and to respect freeze; push also to append exactly its digits".into(),
        "for a shift on an all-zero rightmost group both documented readings (group x 10^p, implicit 1) are accepted".into(),
    ])
}

/// Re-execute an op list given by names (replay support).
pub fn replay(input: &str) -> String {
    fn parse(name: &str) -> Option<Op> {
        let leak = |x: &str| -> &'static [u8] { Box::leak(x.to_string().into_boxed_str()).as_bytes() };
        let inner = |pre: &str| name.strip_prefix(pre).and_then(|r| r.strip_suffix(")"));
        if let Some(a) = inner("put(\"").and_then(|r| r.strip_suffix('"')) {
            return Some(Op::Put(leak(a)));
        }
        if let Some(a) = inner("fput(\"").and_then(|r| r.strip_suffix('"')) {
            return Some(Op::Fput(leak(a)));
        }
        if let Some(a) = inner("push(\"").and_then(|r| r.strip_suffix('"')) {
            return Some(Op::Push(leak(a)));
        }
        if let Some(a) = inner("put_digit_at('") {
            let (d, p) = a.split_once("',")?;
            return Some(Op::At(*d.as_bytes().first()?, p.parse().ok()?));
        }
        if let Some(a) = inner("shift(") {
            return Some(Op::Shift(a.parse().ok()?));
        }
        match name {
            "freeze()" => Some(Op::Freeze),
            "reset()" => Some(Op::Reset),
            _ => None,
        }
    }
    let mut b = DigitString::new();
    let mut log = vec![];
    for name in input.split("; ") {
        match parse(name) {
            Some(op) => {
                let r = guard(|| apply(&mut b, &op));
                log.push(format!("{name} -> {:?} => {:?}", r, guard(|| b.to_string())));
            }
            None => log.push(format!("{name}: unknown op")),
        }
    }
    log.join("\n")
}
