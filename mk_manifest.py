#!/usr/bin/env python3
"""Regenerates MANIFEST.json from the table below (run after adding a check)."""
import json, subprocess
HOOK = subprocess.run(["git","-C","/repo","log","--format=%H","--grep=^verif hook"],capture_output=True,text=True).stdout.split()
HOOK.reverse()
CHECKS = {
 "C02": ("E-SEQ", "exhaustive enumeration of all concatenations of <= k text atoms (words, Unicode whitespace, punctuation, combining characters, emoji, CJK); output compared with an independent splice of the reported occurrences; token-wise accounting on streams", "4.C02", "atom alphabet; the tokenizer is reached through the cfg-guarded hook"),
 "C04": ("E-SWEEP", "exhaustive enumeration of every rank x inflection x spelling variant through validator, scanner and occurrence fields, against reference ordinal spellers", "4.C04", "ordinal spellers and marker table are the specification; ranks up to the stated bound"),
 "C05": ("E-SWEEP", "exhaustive product of integer parts x all fraction digit strings up to the length bound x frames, plus negative cases, against reference spellers", "4.C05", "integer parts are a stated finite set, fractions exhaustive to length 4 (structured 5-6 in thorough)"),
 "C08": ("E-SWEEP", "exhaustive enumeration of all pairs (a,b) in [0,99]^2 x joiner x language against the allowed-outcome set computed on morphemes; all dictated digit strings up to the length bound", "4.C08", "fusion judged on morphemes of the reference spellers with the conjunction removed"),
 "C10": ("E-SEQ", "exhaustive enumeration of all ordered pairs of phrases <= k symbols x strong separators x thresholds, differential oracle rewrite(A S B) = rewrite(A) S rewrite(B); all number pairs x punctuation", "4.C10", "context alphabet per language; two separators"),
 "C11": ("E-SEQ", "exhaustive enumeration of word sequences <= k x 5 recasings x thresholds, metamorphic comparison with the lower-case original on token path, text path and validator", "4.C11", "recasings with irreversible case mapping are skipped as the quantifier requires"),
 "C13": ("E-SEQ", "exhaustive enumeration of word sequences <= k over the full vocabulary, differential comparison of Language::L with L::new() on every API function and trait method; exhaustive 1-2 letter code strings for the lookup", "4.C13", "ISO 639-1 list embedded in the harness"),
 "C14": ("E-SEQ + E-SCHED", "exhaustive call histories <= k and iterator merge orders; exhaustive thread interleavings at call/callback scheduling points up to a preemption bound under a controlled scheduler (CHESS-style re-execution); Send+Sync compile probe; silent child process", "4.C14", "scheduling points are call boundaries and library callbacks; finer-grained races are outside a cooperative scheduler"),
 "C16": ("E-SWEEP", "exhaustive enumeration of (n, k zeros) through validator and scanner, plus trailing zero and lone zero", "4.C16", "standard spellings; n up to the dense bound plus the group product"),
 "C17": ("E-SEQ", "exhaustive enumeration of word sequences <= k x whitespace substitutions (uniform, one run at a time, prepend, append) x 10 whitespace strings, metamorphic comparison", "4.C17", "Unicode White_Space characters only"),
 "C18": ("E-SEQ", "exhaustive enumeration of English token sequences <= k containing 'o' in three renderings x thresholds against the neighbour rule of the statement (model text with zero / ordinary word)", "4.C18", "a neighbour is a number word iff it validates on its own"),
 "C01": ("E-SWEEP", "exhaustive range/product enumeration of (language, n, spelling variant, frame) through the real validator and scanner, against reference spellers", "4.C01",
         "all integers below the dense bound with every variant combination, the group product up to 10^12 and per-position sweeps; beyond these bounds nothing is claimed"),
 "C03": ("E-SEQ", "exhaustive enumeration of all strings <= k over a 16-character alphabet and all atom sequences <= k over the full vocabulary, every entry point x threshold, in child processes", "4.C03",
         "termination decided up to a watchdog; long inputs are a smoke list"),
 "C06": ("E-SEQ", "exhaustive enumeration of token streams <= k over full and class alphabets x thresholds; every occurrence checked against the numeral grammar", "4.C06",
         "numeral grammar / marker table in the harness is the specification of 'well-formed'"),
 "C07": ("E-SEQ", "exhaustive enumeration of token streams <= k; differential comparison of the scanner with the validator on three clauses", "4.C07", "threshold 0, no hints, no annotation"),
 "C09": ("E-SEQ", "exhaustive enumeration of token streams <= k over a class alphabet x thresholds against an executable model of the lone-number policy", "4.C09",
         "linking-word sets are taken from the interpreter; the conjunction counts as linking"),
 "C12": ("E-STATE", "explicit-state BFS with fingerprint deduplication over the real DigitString (states re-reached by path replay), all invariants on every transition, against a big-integer value model", "4.C12",
         "ASCII digit arguments, documented preconditions honoured, error kinds not compared"),
 "C15": ("E-SEQ", "exhaustive enumeration of token streams <= k with per-token hint decorations; lazy iterator vs batch, pull counting, comma-insertion differential", "4.C15",
         "hints only on tokens the scanner looks at"),
}
ALL = ["C%02d"%i for i in range(1,19)]
m = {
 "version": 1,
 "setup_cmd": "cd /verif/harness && CARGO_NET_OFFLINE=true cargo build --release --offline && ../target/release/t2n-verif setup",
 "hooks": {
   "guard": "cargo feature \"verif\" of the text2num crate (off by default)",
   "enable": "the harness depends on text2num (path /repo via harness/repo) with features=[\"verif\"]: re-export of the private tokenizer, and an optional yield hook at the entry of every mutating DigitString operation (used by C14's scheduler)",
   "baseline_off_cmd": "cd /repo && cargo test --workspace --no-fail-fast --offline",
   "source_commits": HOOK,
   "add_only": True,
 },
 "engines": [
   {"name":"E-SWEEP","path":"harness/src/checks/c01.rs","serves_properties":["C01","C04","C05","C08","C16"],"kind_free_text":"exhaustive range / product enumeration through the real entry points"},
   {"name":"E-SEQ","path":"harness/src/explore.rs","serves_properties":["C02","C03","C06","C07","C09","C10","C11","C13","C15","C17","C18"],"kind_free_text":"stateless depth-bounded exhaustive sequence exploration of the real code (length-then-lexicographic, sharded)"},
   {"name":"E-STATE","path":"harness/src/checks/c12.rs","serves_properties":["C12"],"kind_free_text":"explicit-state BFS with fingerprints over the real DigitString"},
   {"name":"E-SCHED","path":"harness/src/sched.rs","serves_properties":["C14"],"kind_free_text":"preemption-bounded exhaustive scheduler (CHESS-style re-execution) over real threads; scheduling points = call boundaries, library callbacks into harness code, every mutating DigitString operation (cfg-guarded yield hook)"},
   {"name":"E-SCHED-SYNC","path":"shim/verif_sync.rs","serves_properties":["C14"],"kind_free_text":"the same scheduler on a generated copy of the library whose std::sync primitives are wrapped: a scheduling point before every synchronisation operation, lock acquisition by try_lock + blocked points, deadlock detection (harness-sync builds the harness against that copy)"},
 ],
 "checks": [],
 "not_applicable": [],
 "notes": "All checks: ./check <ID> <tier>; exit 0 held / 1 VIOLATION / 2 machinery failure. Known findings: known_findings.json. See DESIGN.md.",
}
for pid in ALL:
    if pid in CHECKS:
        eng, tech, ref, note = CHECKS[pid]
        m["checks"].append({
          "property_id": pid,
          "quick_cmd": f"./check {pid} quick",
          "thorough_cmd": f"./check {pid} thorough",
          "evidence_file": f"evidence/{pid}.json",
          "replay_cmd_template": "./check replay {path}",
          "engine": eng,
          "level_claimed": {"category":"model_checking","text":"bounded exhaustive exploration of the real code: "+tech,"design_ref":"DESIGN.md §"+ref},
          "level_note": note,
          "technique": tech,
        })
    else:
        m["not_applicable"].append({"property_id": pid, "reason": "check not built yet (work in progress; model checking applies, see DESIGN.md §4)"})
json.dump(m, open("/verif/MANIFEST.json","w"), indent=1, ensure_ascii=False)
print("checks:", len(m["checks"]), "not_applicable:", len(m["not_applicable"]))
