//! C02 — rewriting is local: only number spans change, all other text is kept verbatim (E-SEQ over text atoms).
use crate::explore;
use crate::infra::*;
use crate::langs::{self, L};
use crate::stream::{self, HTok};
use crate::vocab;
use serde_json::json;
use text2num::verif::tokenize;
use text2num::{replace_numbers_in_stream, replace_numbers_in_text};

/// atoms: (text, may take part in a number)
pub fn atoms(l: L, core_only: bool) -> Vec<(String, bool)> {
    let c = vocab::cls(l);
    let mut v: Vec<(String, bool)> = vec![
        (c.one.clone(), true),
        (c.tens.clone(), true),
        (" ".into(), false),
        (c.ordinary.clone(), false),
        (",".into(), false),
        (c.hundred.clone(), true),
        (".".into(), false),
        ("-".into(), false),
        (c.zero.clone(), true),
        ("é".into(), false),
        ("\n".into(), false),
        (c.small_ord.clone(), true),
        (c.linking.clone(), false),
        ("'".into(), false),
    ];
    if !core_only {
        v.extend([
            (c.conj.clone(), true),
            (c.sep.clone(), true),
            ("  ".into(), false),
            ("!".into(), false),
            ("(".into(), false),
            ("ß".into(), false),
            ("e\u{301}".into(), false),
            ("\u{a0}".into(), false),
            ("\u{2009}".into(), false),
            ("😀".into(), false),
            ("三".into(), false),
            ("٣".into(), false),
            ("²".into(), false),
            ("1".into(), false),
            ("\t".into(), false),
            ("\r\n".into(), false),
            ("\u{2019}".into(), false),
            ("\u{201c}".into(), false),
            ("\u{ab}".into(), false),
            ("\u{2026}".into(), false),
            ("\u{2014}".into(), false),
            // one more representative per Unicode category a text can contain
            ("_".into(), false),
            ("\u{20ac}".into(), false),
            ("+".into(), false),
            ("\u{2028}".into(), false),
            ("\u{200b}".into(), false),
            ("\u{feff}".into(), false),
            // capitals whose lower-case form has another UTF-8 length (2 -> 3 bytes, 3 -> 1, 2 -> 3 with a combining mark)
            ("\u{23a}".into(), false),
            ("\u{212a}".into(), false),
            ("\u{130}".into(), false),
        ]);
        match l {
            L::En => v.push(("o".into(), true)),
            L::Fr => {
                v.push(("neuf".into(), true));
                v.push(("un".into(), true));
            }
            _ => v.push((c.unit.clone(), true)),
        }
    }
    // the conjunction may coincide with a letter atom etc.: keep first occurrence, OR the number flag
    let mut out: Vec<(String, bool)> = vec![];
    for (w, f) in v {
        if let Some(e) = out.iter_mut().find(|(x, _)| *x == w) {
            e.1 |= f;
        } else {
            out.push((w, f));
        }
    }
    out
}

fn one_text(ctx: &Ctx, acc: &mut Acc, l: L, lang: &text2num::Language, text: &str, has_number_atom: bool) {
    acc.states += 1;
    let mut rep = |acc: &mut Acc, entry: &str, thr: Option<f64>, clause: &str, expected: String, observed: String| {
        ctx.report(acc, Violation { lang: l.code().into(), entry: entry.into(), input: text.to_string(), threshold: thr, clause: clause.into(), expected, observed });
    };
    // (1) the tokens concatenate back to the text
    acc.traces += 1;
    let toks: Vec<String> = match guard(|| tokenize(text).map(|t| t.text).collect::<Vec<_>>()) {
        Ok(t) => t,
        Err(_) => return,
    };
    if toks.concat() != text {
        rep(acc, "tokenize", None, "concat(tokens(s)) = s", text.to_string(), toks.concat());
        return;
    }
    // short texts also at the improper and the very large thresholds (the public rewriting entry points and the
    // search they are compared with must read the threshold alike)
    let thrs: &[f64] = if toks.len() <= 5 { &[0.0, 10.0, 1000.0, 5.5, 1.5, f64::INFINITY, f64::NEG_INFINITY, f64::NAN] } else { &[0.0, 10.0] };
    for &t in thrs {
        acc.transitions += toks.len() as u64;
        acc.traces += 3;
        let r = guard(|| {
            let (tk, occ) = stream::find_in_text(text, lang, t);
            let out = replace_numbers_in_text(text, lang, t);
            (tk, occ, out)
        });
        let Ok((tk, occ, out)) = r else { continue };
        if t == 0.0 {
            acc.outcome(&out);
            if !occ.is_empty() {
                acc.nontrivial += 1;
            }
        }
        // (2) output = independent splice of the reported occurrences
        let want = stream::splice(&toks, &occ);
        if out != want {
            rep(acc, "replace_text", Some(t), "replace_text(s,t) = splice(tokens(s), find_numbers(tokens(s),t))", want, out.clone());
        }
        // (3) no number word at all: identical
        if !has_number_atom && out != text {
            rep(acc, "replace_text", Some(t), "a text containing no number word is returned identical", text.to_string(), out.clone());
        }
        // (4) token streams: every input token kept as is or handed exactly once, in order, to the constructor of the occurrence covering it
        let h: Vec<HTok> = tk.iter().enumerate().map(|(i, x)| HTok { nan: x.nan, ..HTok::new(i, &x.text) }).collect();
        let n = h.len();
        let r = guard(|| replace_numbers_in_stream(h.clone(), lang, t));
        let Ok(res) = r else { continue };
        let mut flat: Vec<usize> = vec![];
        let mut groups: Vec<(Vec<usize>, String)> = vec![];
        let mut kept_ok = true;
        for x in &res {
            match &x.replaced {
                Some(ids) => {
                    flat.extend(ids.iter().copied());
                    groups.push((ids.clone(), x.text.clone()));
                }
                None => {
                    flat.push(x.id);
                    if x.id >= n || h[x.id] != *x {
                        kept_ok = false;
                    }
                }
            }
        }
        let expected_flat: Vec<usize> = (0..n).collect();
        let expected_groups: Vec<(Vec<usize>, String)> = occ.iter().map(|o| ((o.start..o.end).collect(), o.text.clone())).collect();
        if flat != expected_flat || !kept_ok {
            rep(acc, "replace_stream", Some(t), "each input token is kept as is or handed exactly once, in order, to a replacement constructor".into(), format!("{expected_flat:?}"), format!("{flat:?} kept_unchanged={kept_ok}"));
        } else if groups != expected_groups {
            rep(acc, "replace_stream", Some(t), "replaced groups are exactly the reported occurrences (span and text)".into(), format!("{expected_groups:?}"), format!("{groups:?}"));
        }
    }
}

/// clause 4 on word-only token streams (no separator tokens, as ASR / NLP pipelines produce them):
/// occurrences can then be directly adjacent
fn one_stream(ctx: &Ctx, acc: &mut Acc, l: L, lang: &text2num::Language, syms: &[&str]) {
    acc.states += 1;
    let h: Vec<HTok> = syms.iter().enumerate().map(|(i, w)| HTok::new(i, w)).collect();
    let n = h.len();
    for &t in &[0.0, 10.0, 1000.0, 25.5, 5.5, 1.5, f64::INFINITY, f64::NAN] {
        acc.transitions += n as u64;
        acc.traces += 1;
        let Ok((occ, res)) = guard(|| (stream::find(&h, lang, t), replace_numbers_in_stream(h.clone(), lang, t))) else { continue };
        if t == 0.0 && occ.len() > 1 {
            acc.nontrivial += 1;
        }
        let mut flat: Vec<usize> = vec![];
        let mut groups: Vec<(Vec<usize>, String)> = vec![];
        let mut kept_ok = true;
        for x in &res {
            match &x.replaced {
                Some(ids) => {
                    flat.extend(ids.iter().copied());
                    groups.push((ids.clone(), x.text.clone()));
                }
                None => {
                    flat.push(x.id);
                    if x.id >= n || h[x.id] != *x {
                        kept_ok = false;
                    }
                }
            }
        }
        let expected_flat: Vec<usize> = (0..n).collect();
        let expected_groups: Vec<(Vec<usize>, String)> = occ.iter().map(|o| ((o.start..o.end).collect(), o.text.clone())).collect();
        let bad = if flat != expected_flat || !kept_ok {
            Some(("each input token is kept as is or handed exactly once, in order, to a replacement constructor", format!("{expected_flat:?}"), format!("{flat:?} kept_unchanged={kept_ok}")))
        } else if groups != expected_groups {
            Some(("replaced groups are exactly the reported occurrences (span and text)", format!("{expected_groups:?}"), format!("{groups:?}")))
        } else {
            None
        };
        if let Some((clause, expected, observed)) = bad {
            ctx.report(acc, Violation { lang: l.code().into(), entry: "replace_stream".into(), input: serde_json::to_string(&syms).unwrap(), threshold: Some(t), clause: clause.into(), expected, observed });
        }
    }
}

pub fn run(tier: Tier) -> i32 {
    let ctx = Ctx::new("C02", tier);
    let (k, kcore) = tier.pick((3usize, 5usize), (4, 6));
    let rmax = tier.pick(300usize, 1200usize);
    let rmax3 = tier.pick(16usize, 40usize);
    let mut total = Acc::new();
    let mut sizes = vec![];
    for l in langs::ALL {
        let lang = l.facade();
        let full = atoms(l, false);
        let core = atoms(l, true);
        sizes.push(json!({"lang": l.code(), "atoms": full.len(), "core_atoms": core.len()}));
        let names: Vec<String> = full.iter().map(|(w, _)| w.clone()).collect();
        total.merge(explore::all_sequences2(&names, k, |syms, acc| {
            let text = syms.concat();
            let has_num = syms.iter().any(|s| full.iter().any(|(w, f)| w == s && *f));
            one_text(&ctx, acc, l, &lang, &text, has_num);
        }));
        let cnames: Vec<String> = core.iter().map(|(w, _)| w.clone()).collect();
        total.merge(explore::all_sequences2(&cnames, kcore, |syms, acc| {
            if syms.len() > k {
                let text = syms.concat();
                let has_num = syms.iter().any(|s| core.iter().any(|(w, f)| w == s && *f));
                one_text(&ctx, acc, l, &lang, &text, has_num);
            }
        }));
        // three-atom patterns (multi-token occurrences) repeated up to 40 times: more than a dozen occurrences in one text
        let c8: Vec<String> = cnames.iter().take(8).cloned().collect();
        total.merge(explore::all_repetitions(&c8, 3, 2..=rmax3, |syms, acc| {
            if syms.len() % 3 == 0 && !(syms[0] == syms[1] && syms[1] == syms[2]) {
                let text = syms.concat();
                let has_num = syms.iter().any(|s| core.iter().any(|(w, f)| w == s && *f));
                one_text(&ctx, acc, l, &lang, &text, has_num);
            }
        }));
        // address-like shapes: word sign word sign word, without blanks (mail addresses, paths, times, tags)
        {
            let c = vocab::cls(l);
            let ws = [c.one.clone(), c.tens.clone(), c.ordinary.clone()];
            let signs = ["@", ".", "-", "_", ":", "/", "#", "+", "="];
            let mut acc2 = Acc::new();
            for a in &ws {
                for p1 in signs {
                    for b in &ws {
                        for p2 in signs {
                            for cc in &ws {
                                one_text(&ctx, &mut acc2, l, &lang, &format!("{a}{p1}{b}{p2}{cc}"), true);
                                one_text(&ctx, &mut acc2, l, &lang, &format!("xyzzy {a}{p1}{b}{p2}{cc}.xyzzy plugh"), true);
                            }
                        }
                    }
                }
            }
            total.merge(acc2);
        }
        let mut words: Vec<String> = vocab::sigma_cls(l).into_iter().take(tier.pick(14, 16)).collect();
        // an empty token (a decoder's silence)
        words.push(String::new());
        total.merge(explore::all_sequences2(&words, tier.pick(4, 5), |syms, acc| one_stream(&ctx, acc, l, &lang, syms)));
        // long word-only streams: patterns of <= 3 words repeated up to 40 times
        total.merge(explore::all_repetitions(&words, 3, 2..=rmax3, |syms, acc| one_stream(&ctx, acc, l, &lang, syms)));
        // long texts: every pattern of <= 2 core atoms repeated r times, every r up to the bound
        total.merge(explore::all_repetitions(&cnames, 2, 2..=rmax, |syms, acc| {
            let text = syms.concat();
            let has_num = syms.iter().any(|s| core.iter().any(|(w, f)| w == s && *f));
            one_text(&ctx, acc, l, &lang, &text, has_num);
        }));
        total.sample(json!({"lang": l.code(), "text": format!("{}{}{}{}", names[0], ",", "\u{a0}", names[1])}));
    }
    // very long texts (tens of thousands of tokens): isolated pairs of small numbers that only count together, with
    // periods of 6, 7 and 11 tokens, so that any piecewise processing cuts through some pair
    {
        let sizes: &[usize] = if tier == Tier::Quick { &[3_000, 20_000, 70_000] } else { &[3_000, 20_000, 80_000] };
        let mut shards: Vec<(L, usize, usize)> = vec![];
        for l in langs::ALL {
            for u in 0..4usize {
                for &n in sizes {
                    // quick tier: the longest size for two of the four units only (one wave of shards)
                    if tier == Tier::Quick && n > 20_000 && u % 2 == 1 {
                        continue;
                    }
                    shards.push((l, u, n));
                }
            }
        }
        total.merge(par_shards(shards, |&(l, u, n), acc| {
            let lang = l.facade();
            let c = vocab::cls(l);
            let unit = match u {
                0 => format!("{} {}, {} ", c.ordinary, c.one, c.unit),
                1 => format!("{} {} {} ", c.ordinary, c.one, c.unit),
                2 => format!("{} plugh xyzzy {}, {} ", c.ordinary, c.one, c.unit),
                _ => format!("{}, {}, {}; ", c.ordinary, c.one, c.unit),
            };
            let per = tokenize(&unit).count().max(1);
            let text = unit.repeat(n / per + 1);
            one_text(&ctx, acc, l, &lang, &text, true);
        }));
    }
    let cov = json!({
        "exhaustive": true,
        "rule": "every concatenation (no implicit spaces) of <= k atoms: number words, ordinary/linking/ambiguous words, ASCII and Unicode whitespace, punctuation, multi-byte and combining characters, emoji, CJK, non-ASCII digits; thresholds 0 and 10; four clauses (tokens concatenate back; output = independent splice of reported occurrences; no number atom => identical; stream replacement hands each token exactly once, in order — on the tokens of the text and on word-only streams of <= k class words, where occurrences can be adjacent); non-trivial = texts with at least one occurrence",
        "bounds": {"very_long_texts": "4 repeating units (isolated pairs of small numbers, periods 6 / 7 / 11 tokens, with and without punctuation) repeated to 3 000, 20 000 and (quick: units 1 and 3 only) 70 000 tokens (thorough: all units to 80 000): past token positions 2^16 and 2^17", "depth_all_atoms": k, "depth_core_atoms": kcore, "long_texts": {"pattern_depth": 2, "repetitions_up_to": rmax}, "three_atom_patterns_and_word_stream_patterns_repeated_up_to": rmax3},
        "alphabets": sizes,
    });
    ctx.finish(total, cov, vec!["the segmentation itself is not prescribed, only that tokens concatenate back to the text".into()])
}
