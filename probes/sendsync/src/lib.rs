//! Compile-time probe for C14: interpreters can be sent to and shared between threads.
//! `cargo check` of this crate fails with a trait-bound error iff that is no longer true.
use text2num::lang::{Dutch, English, French, German, Italian, Portuguese, Spanish};
use text2num::Language;

fn sendable_and_shareable<T: Send + Sync + 'static>() {}

pub fn probe() {
    sendable_and_shareable::<Language>();
    sendable_and_shareable::<English>();
    sendable_and_shareable::<French>();
    sendable_and_shareable::<Spanish>();
    sendable_and_shareable::<Portuguese>();
    sendable_and_shareable::<Italian>();
    sendable_and_shareable::<German>();
    sendable_and_shareable::<Dutch>();
    // and really usable from a spawned thread through an Arc
    let l = std::sync::Arc::new(Language::english());
    let l2 = l.clone();
    let _ = std::thread::spawn(move || text2num::text2digits("one", &*l2).is_ok());
}
