//! C10 — context independence: unrelated parts of a text are converted independently (E-SEQ over pairs of phrases).
use crate::infra::*;
use crate::langs::{self, L};
use crate::spell::{self, Var};
use crate::vocab;
use serde_json::json;
use text2num::replace_numbers_in_text;

pub const SEPARATORS: [&str; 2] = [" xyzzy plugh xyzzy. ", " plugh xyzzy plugh xyzzy! "];
pub const PRE: [&str; 8] = ["'", "-", "\"", "(", "« ", "... ", "-'", "''"];
pub const SUF: [&str; 3] = ["", "'", "-"];
pub const ODD: [&str; 16] = ["http://example.com/faq", "https://a.b/c?d=1", "a@b.co", "#tag", "3.14", "1,000", "C++", "R&D", "e.g.", "www.x.org", "12:30", "x_y", "50%", "$5", "file:///tmp/x", "a://"];
pub const PUNCT: [&str; 14] = [",", ", ", ".", ". ", ";", ":", "!", "?", " - ", " / ", "(", "…", "—", " ' "];

pub fn alphabet(l: L, n: usize) -> Vec<String> {
    let c = vocab::cls(l);
    let mut v: Vec<String> = vec![];
    match l {
        L::Fr => v.extend(["neuf", "un", "du", "vingt", "cent"].iter().map(|s| s.to_string())),
        L::En => v.extend(["o", "one", "twenty", "hundred"].iter().map(|s| s.to_string())),
        _ => v.extend([c.one.clone(), c.tens.clone(), c.hundred.clone()]),
    }
    v.extend([c.conj, c.ordinary, c.sep, c.zero, c.small_ord, c.linking, ",".to_string(), ".".to_string(), c.unit, c.thousand, c.teen]);
    if l == L::Fr {
        v.extend(["le", "l'", "numéro", "dix"].iter().map(|s| s.to_string()));
    }
    let mut out: Vec<String> = vec![];
    for w in v {
        if !out.contains(&w) {
            out.push(w);
        }
    }
    out.truncate(n);
    out
}

fn phrases(alpha: &[String], k: usize) -> Vec<String> {
    let mut out = vec![];
    let n = alpha.len();
    for first in 0..n {
        for_each_seq(n, k, first, &mut |idx| {
            out.push(idx.iter().map(|&i| alpha[i].as_str()).collect::<Vec<_>>().join(" "));
        });
    }
    out
}

pub fn run(tier: Tier) -> i32 {
    let ctx = Ctx::new("C10", tier);
    let (n, k) = tier.pick((10usize, 3usize), (14, 3));
    let mut shards: Vec<(L, usize, usize)> = vec![];
    let mut per_lang: Vec<(L, Vec<String>)> = vec![];
    for l in langs::ALL {
        let ph = phrases(&alphabet(l, n), k);
        let step = (ph.len() / 32).max(1);
        let mut lo = 0;
        while lo < ph.len() {
            let hi = (lo + step).min(ph.len());
            shards.push((l, lo, hi));
            lo = hi;
        }
        per_lang.push((l, ph));
    }
    let mut acc = par_shards(shards, |&(l, lo, hi), acc| {
        let lang = l.facade();
        let ph = &per_lang.iter().find(|(x, _)| *x == l).unwrap().1;
        for &t in &[0.0, 10.0] {
            // rewriting of each phrase alone
            let alone: Vec<String> = ph.iter().map(|p| guard(|| replace_numbers_in_text(p, &lang, t)).unwrap_or_else(|e| e)).collect();
            for ai in lo..hi {
                for (bi, b) in ph.iter().enumerate() {
                    for s in SEPARATORS {
                        acc.states += 1;
                        acc.traces += 1;
                        let text = format!("{}{s}{b}", ph[ai]);
                        acc.transitions += 1;
                        let got = guard(|| replace_numbers_in_text(&text, &lang, t)).unwrap_or_else(|e| e);
                        let want = format!("{}{s}{}", alone[ai], alone[bi]);
                        if got != alone[ai] {
                            acc.nontrivial += 1;
                        }
                        if got != want {
                            ctx.report(acc, Violation {
                                lang: l.code().into(),
                                entry: "replace_text".into(),
                                input: text,
                                threshold: Some(t),
                                clause: "rewrite(A S B, t) = rewrite(A, t) S rewrite(B, t)".into(),
                                expected: want,
                                observed: got,
                            });
                        }
                    }
                }
            }
        }
        if lo == 0 {
            acc.sample(json!({"lang": l.code(), "A": ph[ph.len() / 2], "S": SEPARATORS[0], "B": ph[ph.len() / 3]}));
        }
    });
    // edge decorations: quotes, dashes and brackets glued to the end of A or the start of B
    let (n_e, k_e) = (n.min(10), 2usize);
    let mut eshards: Vec<(L, usize)> = vec![];
    for l in langs::ALL {
        for d in 0..PRE.len() {
            eshards.push((l, d));
        }
    }
    acc.merge(par_shards(eshards, |&(l, d), acc| {
        let lang = l.facade();
        let ph = phrases(&alphabet(l, n_e), k_e);
        for &t in &[0.0, 10.0] {
            for suf in SUF {
                let aa: Vec<String> = ph.iter().map(|p| format!("{p}{suf}")).collect();
                let bb: Vec<String> = ph.iter().map(|p| format!("{}{p}", PRE[d])).collect();
                let alone_a: Vec<String> = aa.iter().map(|p| guard(|| replace_numbers_in_text(p, &lang, t)).unwrap_or_else(|e| e)).collect();
                let alone_b: Vec<String> = bb.iter().map(|p| guard(|| replace_numbers_in_text(p, &lang, t)).unwrap_or_else(|e| e)).collect();
                for (ai, a) in aa.iter().enumerate() {
                    for (bi, b) in bb.iter().enumerate() {
                        let s = SEPARATORS[0];
                        acc.states += 1;
                        acc.traces += 1;
                        acc.transitions += 1;
                        let text = format!("{a}{s}{b}");
                        let got = guard(|| replace_numbers_in_text(&text, &lang, t)).unwrap_or_else(|e| e);
                        let want = format!("{}{s}{}", alone_a[ai], alone_b[bi]);
                        if got != want {
                            ctx.report(acc, Violation { lang: l.code().into(), entry: "replace_text".into(), input: text, threshold: Some(t), clause: "rewrite(A S B, t) = rewrite(A, t) S rewrite(B, t)".into(), expected: want, observed: got });
                        }
                    }
                }
            }
        }
    }));
    // odd tokens in A (URLs, addresses, figures, symbols) and punctuation glued to the number words of B
    for l in langs::ALL {
        let lang = l.facade();
        let c = vocab::cls(l);
        let a0s: Vec<String> = vec![String::new(), format!("{} ", c.one), format!("{} ", c.tens), format!("{} ", c.ordinary), format!("{} ", c.sep), format!("{} ", c.conj)];
        let bw: Vec<String> = vec![c.one.clone(), c.tens.clone(), c.unit.clone(), format!("{},", c.tens), format!("{};", c.unit), format!("{}.", c.unit), c.ordinary.clone(), c.sep.clone()];
        let bs = phrases(&bw, 2);
        for &t in &[0.0, 10.0] {
            let alone_b: Vec<String> = bs.iter().map(|p| guard(|| replace_numbers_in_text(p, &lang, t)).unwrap_or_else(|e| e)).collect();
            for odd in ODD {
                for a0 in &a0s {
                    let a = format!("{a0}{odd}");
                    let alone_a = guard(|| replace_numbers_in_text(&a, &lang, t)).unwrap_or_else(|e| e);
                    for (bi, b) in bs.iter().enumerate() {
                        let s = SEPARATORS[0];
                        acc.states += 1;
                        acc.traces += 1;
                        acc.transitions += 1;
                        let text = format!("{a}{s}{b}");
                        let got = guard(|| replace_numbers_in_text(&text, &lang, t)).unwrap_or_else(|e| e);
                        let want = format!("{alone_a}{s}{}", alone_b[bi]);
                        if got != want {
                            ctx.report(&mut acc, Violation { lang: l.code().into(), entry: "replace_text".into(), input: text, threshold: Some(t), clause: "rewrite(A S B, t) = rewrite(A, t) S rewrite(B, t), A ending in an odd token".into(), expected: want, observed: got });
                        }
                    }
                }
            }
        }
    }
    // every linking word of the interpreter (and every unknown word-like literal of the current source tree) in the
    // first part, before and after a number; second parts from the phrase list
    for l in langs::ALL {
        let lang = l.facade();
        let c = vocab::cls(l);
        let bs = phrases(&alphabet(l, 8), 2);
        let mut ws: Vec<String> = vocab::linking_words(l).iter().map(|x| x.to_string()).collect();
        let news: Vec<String> = vocab::new_source_literals(l).into_iter().filter(|w| !w.contains(' ')).collect();
        ws.extend(news.iter().cloned());
        for &t in &[0.0, 10.0] {
            let alone_b: Vec<String> = bs.iter().map(|p| guard(|| replace_numbers_in_text(p, &lang, t)).unwrap_or_else(|e| e)).collect();
            for w in &ws {
                for a in [format!("{w} {}", c.unit), format!("{} {w}", c.unit), format!("{} {w} {}", c.ordinary, c.tens), w.clone()] {
                    let alone_a = guard(|| replace_numbers_in_text(&a, &lang, t)).unwrap_or_else(|e| e);
                    for (bi, b) in bs.iter().enumerate() {
                        let s = SEPARATORS[0];
                        acc.states += 1;
                        acc.traces += 1;
                        acc.transitions += 1;
                        let text = format!("{a}{s}{b}");
                        let got = guard(|| replace_numbers_in_text(&text, &lang, t)).unwrap_or_else(|e| e);
                        let want = format!("{alone_a}{s}{}", alone_b[bi]);
                        if got != want {
                            ctx.report(&mut acc, Violation { lang: l.code().into(), entry: "replace_text".into(), input: text, threshold: Some(t), clause: "rewrite(A S B, t) = rewrite(A, t) S rewrite(B, t), A built around a linking word".into(), expected: want, observed: got });
                        }
                    }
                }
            }
            // the word in the SECOND part, right after or before a small number; first parts from the phrase list
            for w in &ws {
                for b in [format!("{} {w} {}", c.unit, c.ordinary), format!("{w} {} {}", c.unit, c.ordinary), format!("{} {w}", c.unit)] {
                    let alone_b2 = guard(|| replace_numbers_in_text(&b, &lang, t)).unwrap_or_else(|e| e);
                    for (ai, a) in bs.iter().enumerate() {
                        let s = SEPARATORS[0];
                        acc.states += 1;
                        acc.traces += 1;
                        let text = format!("{a}{s}{b}");
                        let got = guard(|| replace_numbers_in_text(&text, &lang, t)).unwrap_or_else(|e| e);
                        let want = format!("{}{s}{alone_b2}", alone_b[ai]);
                        if got != want {
                            ctx.report(&mut acc, Violation { lang: l.code().into(), entry: "replace_text".into(), input: text, threshold: Some(t), clause: "rewrite(A S B, t) = rewrite(A, t) S rewrite(B, t), B built around a linking word or unknown literal".into(), expected: want, observed: got });
                        }
                    }
                }
            }
            // two unknown literals, one in each part, the second in front of a number
            for w1 in &news {
                for w2 in &news {
                    for num in [c.unit.clone(), spell::spell(l, 12, Var::default()), c.tens.clone()] {
                        let a = format!("{} {w1} {}", c.ordinary, c.ordinary);
                        let b = format!("{w2} {num} {}", c.ordinary);
                        let s = SEPARATORS[0];
                        acc.states += 1;
                        acc.traces += 1;
                        let text = format!("{a}{s}{b}");
                        let got = guard(|| replace_numbers_in_text(&text, &lang, t)).unwrap_or_else(|e| e);
                        let want = format!("{}{s}{}", guard(|| replace_numbers_in_text(&a, &lang, t)).unwrap_or_else(|e| e), guard(|| replace_numbers_in_text(&b, &lang, t)).unwrap_or_else(|e| e));
                        if got != want {
                            ctx.report(&mut acc, Violation { lang: l.code().into(), entry: "replace_text".into(), input: text, threshold: Some(t), clause: "rewrite(A S B, t) = rewrite(A, t) S rewrite(B, t), unknown source literals in both parts".into(), expected: want, observed: got });
                        }
                    }
                }
            }
        }
    }
    // long first parts: A = an optional enumeration + N filler words, for every N up to the bound
    let nmax = tier.pick(320usize, 2200usize);
    let mut lshards: Vec<(L, usize, usize)> = vec![];
    for l in langs::ALL {
        let mut lo = 0;
        while lo <= nmax {
            let hi = (lo + 40).min(nmax + 1);
            lshards.push((l, lo, hi));
            lo = hi;
        }
    }
    acc.merge(par_shards(lshards, |&(l, lo, hi), acc| {
        let lang = l.facade();
        let c = vocab::cls(l);
        let bs: Vec<String> = vec![
            format!("{}... {}... {} xyzzy", c.one, c.unit, c.unit2),
            format!("{}, {}, {}", c.one, c.unit, c.unit2),
            format!("{} {}", c.one, c.unit),
            format!("{} {}", c.tens, c.unit),
            format!("{} {} {}", c.one, c.sep, c.unit),
            format!("{}... {}", c.small_ord, c.small_ord),
            format!("{}. {}", c.one, c.unit),
            format!("{} {} {}", c.one, c.linking, c.unit),
        ];
        let heads: Vec<String> = vec![String::new(), format!("{}... {} ", c.one, c.unit)];
        for &t in &[0.0, 10.0] {
            let alone_b: Vec<String> = bs.iter().map(|p| guard(|| replace_numbers_in_text(p, &lang, t)).unwrap_or_else(|e| e)).collect();
            for head in &heads {
                for nf in lo..hi {
                    let mut a = head.clone();
                    for i in 0..nf {
                        if i > 0 {
                            a.push(' ');
                        }
                        a.push_str(if i % 2 == 0 { "xyzzy" } else { "plugh" });
                    }
                    let alone_a = guard(|| replace_numbers_in_text(&a, &lang, t)).unwrap_or_else(|e| e);
                    for s in SEPARATORS {
                        for (bi, b) in bs.iter().enumerate() {
                            acc.states += 1;
                            acc.traces += 1;
                            acc.transitions += 2 * nf as u64 + 8;
                            acc.nontrivial += 1;
                            let text = format!("{a}{s}{b}");
                            let got = guard(|| replace_numbers_in_text(&text, &lang, t)).unwrap_or_else(|e| e);
                            let want = format!("{alone_a}{s}{}", alone_b[bi]);
                            if got != want {
                                ctx.report(acc, Violation { lang: l.code().into(), entry: "replace_text".into(), input: text, threshold: Some(t), clause: "rewrite(A S B, t) = rewrite(A, t) S rewrite(B, t), long A".into(), expected: want, observed: got });
                            }
                        }
                    }
                }
            }
        }
    }));
    // the same word in both parts: every number-related word of the language (scale words and their plurals, ordinals,
    // aliases, the interpreter's own literals) used bare in the first part and inside a number in the second — what a
    // scan learnt about a word early in the text must not change how it reads the word later
    {
        let shards: Vec<(L, String)> = langs::ALL.iter().flat_map(|&l| vocab::number_words(l).into_iter().filter(|w| !w.contains(' ')).map(move |w| (l, w))).collect();
        let acc_same = par_shards(shards, |(l, w), acc| {
            let l = *l;
            let lang = l.facade();
            let c = vocab::cls(l);
            let firsts = [w.clone(), format!("xyzzy {w} plugh"), format!("{w} xyzzy"), format!("{} xyzzy {w} plugh", c.unit)];
            let seconds = [w.clone(), format!("{} {w}", c.unit), format!("{} {w} {}", c.unit, c.unit2), format!("{} {w}", c.tens), format!("{w} {}", c.unit), format!("{} {} {w} {} {w}", c.unit, c.thousand, c.conj)];
            for &t in &[0.0, 10.0] {
                let fa: Vec<String> = firsts.iter().map(|p| guard(|| replace_numbers_in_text(p, &lang, t)).unwrap_or_else(|e| e)).collect();
                let sa: Vec<String> = seconds.iter().map(|p| guard(|| replace_numbers_in_text(p, &lang, t)).unwrap_or_else(|e| e)).collect();
                for (ai, a) in firsts.iter().enumerate() {
                    for (bi, b) in seconds.iter().enumerate() {
                        for s in SEPARATORS {
                            acc.states += 1;
                            acc.traces += 1;
                            let text = format!("{a}{s}{b}");
                            let got = guard(|| replace_numbers_in_text(&text, &lang, t)).unwrap_or_else(|e| e);
                            let want = format!("{}{s}{}", fa[ai], sa[bi]);
                            if got != fa[ai] {
                                acc.nontrivial += 1;
                            }
                            if got != want {
                                ctx.report(acc, Violation { lang: l.code().into(), entry: "replace_text".into(), input: text, threshold: Some(t), clause: "rewrite(A S B, t) = rewrite(A, t) S rewrite(B, t)".into(), expected: want, observed: got });
                            }
                        }
                    }
                }
            }
        });
        acc.merge(acc_same);
    }
    // capitals whose lower case has another byte length (one grows, a later one shrinks: offsets computed on a
    // lower-cased copy of the whole text drift in between): one in the first part, one at the end of the second
    for l in langs::ALL {
        let lang = l.facade();
        let c = vocab::cls(l);
        for x in ["\u{130}", "\u{23a}", "\u{23e}", "\u{130}\u{130}"] {
            for y in ["\u{1e9e}", "\u{212a}", "\u{212b}", "\u{1e9e}\u{1e9e}"] {
                for s in SEPARATORS {
                    for &t in &[0.0, 10.0] {
                        acc.states += 1;
                        acc.traces += 1;
                        let a = format!("{x}xyzzy {} plugh", c.unit);
                        let b = format!("{} {} plugh{y}", c.tens, c.unit);
                        let r = |p: &str| guard(|| replace_numbers_in_text(p, &lang, t)).unwrap_or_else(|e| e);
                        let (got, want) = (r(&format!("{a}{s}{b}")), format!("{}{s}{}", r(&a), r(&b)));
                        if got != want {
                            ctx.report(&mut acc, Violation { lang: l.code().into(), entry: "replace_text".into(), input: format!("{a}{s}{b}"), threshold: Some(t), clause: "rewrite(A S B, t) = rewrite(A, t) S rewrite(B, t)".into(), expected: want, observed: got });
                        }
                    }
                }
            }
        }
    }
    // second clause: punctuation between two spelled numbers keeps them apart
    let reps: [u64; 30] = [0, 1, 2, 5, 9, 10, 11, 12, 16, 20, 21, 22, 30, 70, 71, 80, 81, 90, 99, 100, 101, 110, 200, 1000, 1001, 2000, 21000, 100000, 1000000, 2000021];
    for l in langs::ALL {
        let lang = l.facade();
        for &a in &reps {
            for &b in &reps {
                let (sa, sb) = (spell::spell(l, a, Var::default()), spell::spell(l, b, Var::default()));
                if l == L::De && (sa.contains("eine ") || sb.contains("eine ")) {
                    continue;
                }
                for p in PUNCT {
                    acc.states += 1;
                    acc.traces += 1;
                    acc.nontrivial += 1;
                    let text = format!("{sa}{p}{sb}");
                    let want = format!("{a}{p}{b}");
                    let got = guard(|| replace_numbers_in_text(&text, &lang, 0.0)).unwrap_or_else(|e| e);
                    acc.outcome(&got);
                    if got != want {
                        ctx.report(&mut acc, Violation { lang: l.code().into(), entry: "replace_text".into(), input: text, threshold: Some(0.0), clause: "rewrite(spell(a) p spell(b), 0) = a p b".into(), expected: want, observed: got });
                    }
                }
            }
        }
    }
    // the same clause, no pair of small numbers being special: every ordered pair of numbers up to the bound, two punctuations
    let pair_max: u64 = tier.pick(120, 300);
    {
        let shards: Vec<(L, u64)> = langs::ALL.iter().flat_map(|&l| (0..=pair_max).map(move |a| (l, a))).collect();
        let acc_pairs = par_shards(shards, |&(l, a), acc| {
            let lang = l.facade();
            let sa = spell::spell(l, a, Var::default());
            for b in 0..=pair_max {
                let sb = spell::spell(l, b, Var::default());
                for p in [", ", "; "] {
                    acc.states += 1;
                    acc.traces += 1;
                    acc.nontrivial += 1;
                    let text = format!("{sa}{p}{sb}");
                    let want = format!("{a}{p}{b}");
                    let got = guard(|| replace_numbers_in_text(&text, &lang, 0.0)).unwrap_or_else(|e| e);
                    if got != want {
                        ctx.report(acc, Violation { lang: l.code().into(), entry: "replace_text".into(), input: text, threshold: Some(0.0), clause: "rewrite(spell(a) p spell(b), 0) = a p b".into(), expected: want, observed: got });
                    }
                }
            }
        });
        acc.merge(acc_pairs);
    }
    // dashes glued to the words (a doubled hyphen, a trailing or leading one): whatever the tokenizer makes of them,
    // the two numbers are never fused into one
    for l in langs::ALL {
        let lang = l.facade();
        for &a in &reps[..24] {
            for &b in &reps[..24] {
                let (sa, sb) = (spell::spell(l, a, Var::default()), spell::spell(l, b, Var::default()));
                if sa.contains("eine ") || sb.contains("eine ") {
                    continue;
                }
                for p in ["--", "- ", " -", "-- ", " --", "---", "- - "] {
                    // ' -' in front of a word that may take a hyphen is ordinary hyphenation, not tested here
                    acc.states += 1;
                    acc.traces += 1;
                    let text = format!("{sa}{p}{sb}");
                    let got = guard(|| replace_numbers_in_text(&text, &lang, 0.0)).unwrap_or_else(|e| e);
                    let fused = !got.is_empty() && got.chars().all(|c| c.is_ascii_digit());
                    if fused {
                        ctx.report(&mut acc, Violation { lang: l.code().into(), entry: "replace_text".into(), input: text, threshold: Some(0.0), clause: "dashes between two spelled numbers never fuse them into one numeral".into(), expected: "two numerals, or words left as they are".into(), observed: got });
                    }
                }
            }
        }
    }
    let cov = json!({
        "exhaustive": true,
        "rule": "all ordered pairs (A,B) of phrases of <= k symbols over the context alphabet x 2 strong separators x thresholds {0,10}, differential: rewrite(A S B) vs rewrite(A) S rewrite(B); all pairs of 30 representative numbers x 14 punctuation strings at threshold 0; non-trivial = pairs where A is changed by rewriting, plus all punctuation cases",
        "bounds": {"alphabet": n, "phrase_depth": k, "phrases_per_language": per_lang.iter().map(|(l, p)| json!({l.code(): p.len()})).collect::<Vec<_>>(), "separators": SEPARATORS, "punctuation": PUNCT, "edge_decorations": {"prefix_of_B": PRE, "suffix_of_A": SUF, "phrase_depth": k_e}, "long_A_filler_words_up_to": nmax, "all_number_pairs_up_to": pair_max, "length_changing_capitals": "4 growing (U+0130, U+023A, U+023E) in the first part x 4 shrinking (U+1E9E, Kelvin, Angstrom) at the end of the second", "same_word_in_both_parts": "every number-related word of the language: 4 first parts x 6 second parts x 2 separators x thresholds {0,10}", "odd_tokens_ending_A": ODD},
    });
    ctx.finish(acc, cov, vec!["hyphen and apostrophe adjoining letters are word-forming and are not used as separating punctuation".into()])
}
