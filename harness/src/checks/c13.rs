//! C13 — the Language facade behaves exactly as the concrete interpreter; ISO codes resolve (E-SEQ, differential).
use crate::explore;
use crate::infra::*;
use crate::langs::{self, L};
use crate::stream::{self, HTok};
use crate::vocab;
use crate::with_concrete;
use serde_json::json;
use text2num::digit_string::DigitString;
use text2num::{get_interpreter_for, replace_numbers_in_stream, replace_numbers_in_text, text2digits, LangInterpreter};

const T: [f64; 10] = [f64::NEG_INFINITY, -1.0, 0.0, 1.0, 5.0, 9.0, 10.0, 1000.0, f64::INFINITY, f64::NAN];

/// ISO 639-1 codes (so that "not a language code" is decidable)
const ISO639_1: &str = "aa ab ae af ak am an ar as av ay az ba be bg bh bi bm bn bo br bs ca ce ch co cr cs cu cv cy da de dv dz ee el en eo es et eu fa ff fi fj fo fr fy ga gd gl gn gu gv ha he hi ho hr ht hu hy hz ia id ie ig ii ik io is it iu ja jv ka kg ki kj kk kl km kn ko kr ks ku kv kw ky la lb lg li ln lo lt lu lv mg mh mi mk ml mn mr ms mt my na nb nd ne ng nl nn no nr nv ny oc oj om or os pa pi pl ps pt qu rm rn ro ru rw sa sc sd se sg si sk sl sm sn so sq sr ss st su sv sw ta te tg th ti tk tl tn to tr ts tt tw ty ug uk ur uz ve vi vo wa wo xh yi yo za zh zu";

/// everything observable of one API run, as a string
fn api_obs<I: LangInterpreter>(lang: &I, words: &[&str], t: f64) -> String {
    let text = words.join(" ");
    let toks: Vec<HTok> = words.iter().enumerate().map(|(i, w)| HTok::new(i, w)).collect();
    let r = guard(|| {
        let a = stream::find(&toks, lang, t);
        let b = stream::find_iter(&toks, lang, t);
        let c: Vec<(String, Option<Vec<usize>>)> = replace_numbers_in_stream(toks.clone(), lang, t).into_iter().map(|x| (x.text, x.replaced)).collect();
        let d = replace_numbers_in_text(&text, lang, t);
        let (e_tokens, e) = stream::find_in_text(&text, lang, t);
        let nan: Vec<bool> = e_tokens.iter().map(|x| x.nan).collect();
        format!("{a:?}|{b:?}|{c:?}|{d:?}|{e:?}|{nan:?}")
    });
    match r {
        Ok(s) => s,
        Err(p) => p,
    }
}

fn t2d_obs<I: LangInterpreter>(lang: &I, text: &str) -> String {
    match guard(|| text2digits(text, lang)) {
        Ok(r) => format!("{r:?}"),
        Err(p) => p,
    }
}

/// interpreter-level observation: apply the words one by one on a builder, record every status and state
fn interp_obs<I: LangInterpreter>(lang: &I, words: &[&str]) -> String {
    let r = guard(|| {
        let mut out = String::new();
        let mut b = DigitString::new();
        let mut d = DigitString::new();
        for w in words {
            let low = w.to_lowercase();
            let s = lang.apply(&low, &mut b);
            let s2 = lang.apply_decimal(&low, &mut d);
            out += &format!(
                "{:?}/{:?}:{}:{:?}:{}:{}|{}:{:?}|{:?}|{}|{}|",
                s.map_err(|e| format!("{e:?}")),
                s2.map_err(|e| format!("{e:?}")),
                b.to_string(),
                b.marker,
                b.flags,
                b.len(),
                d.to_string(),
                d.marker,
                lang.get_morph_marker(&low),
                lang.is_decimal_sep(&low),
                lang.is_linking(&low),
            );
            if !b.is_empty() {
                out += &format!("{:?}", lang.format_and_value(&b));
                if !d.is_empty() {
                    out += &format!("{:?}", lang.format_decimal_and_value(&b, &d));
                }
            }
        }
        out
    });
    match r {
        Ok(s) => s,
        Err(p) => p,
    }
}

fn annotate_obs<I: LangInterpreter>(lang: &I, words: &[&str]) -> String {
    let r = guard(|| {
        // a leading '!' pre-sets the mark (a caller may annotate a vector twice, or mark tokens itself)
        let mut toks: Vec<HTok> = words.iter().enumerate().map(|(i, w)| if w.len() > 1 && w.starts_with('!') { HTok::decorated(i, w) } else { HTok::new(i, w) }).collect();
        lang.basic_annotate(&mut toks);
        toks.iter().map(|t| if t.nan { '1' } else { '0' }).collect::<String>()
    });
    match r {
        Ok(s) => s,
        Err(p) => p,
    }
}

fn fingerprint<I: LangInterpreter>(lang: &I, words: &[String]) -> Vec<String> {
    words.iter().map(|w| t2d_obs(lang, w)).collect()
}

pub fn run(tier: Tier) -> i32 {
    let ctx = Ctx::new("C13", tier);
    let k = tier.pick(2usize, 3);
    let mut total = Acc::new();
    for l in langs::ALL {
        let facade = l.facade();
        let mut full = vocab::sigma_full(l);
        full.push(" ".to_string());
        let a = with_concrete!(l, conc => {
            explore::all_sequences(&full, k, |syms, acc| {
                acc.states += 1;
                acc.transitions += 2 * syms.len() as u64;
                let mut cmp = |what: &str, thr: Option<f64>, f: String, c: String, acc: &mut Acc| {
                    acc.traces += 1;
                    if f != c {
                        ctx.report(acc, Violation {
                            lang: l.code().into(),
                            entry: what.into(),
                            input: serde_json::to_string(&syms).unwrap(),
                            threshold: thr,
                            clause: "f(s, Language::L) = f(s, L::new())".into(),
                            expected: format!("concrete: {c}"),
                            observed: format!("facade: {f}"),
                        });
                    }
                };
                let text = syms.join(" ");
                let f = t2d_obs(&facade, &text);
                acc.outcome(&f);
                cmp("text2digits", None, f, t2d_obs(&conc, &text), acc);
                cmp("interpreter", None, interp_obs(&facade, syms), interp_obs(&conc, syms), acc);
                let ts: &[f64] = if syms.len() <= 2 { &T } else { &[0.0, 10.0] };
                for &t in ts {
                    cmp("api", Some(t), api_obs(&facade, syms, t), api_obs(&conc, syms, t), acc);
                }
            })
        });
        total.merge(a);
        // longer phrases over the class alphabet (valid - rejected - valid shapes, decimals with ordinals ...)
        let cls = vocab::sigma_cls(l);
        let kcls = tier.pick(3usize, 4);
        let a2 = with_concrete!(l, conc => {
            explore::all_sequences2(&cls, kcls, |syms, acc| {
                if syms.len() <= k {
                    return;
                }
                acc.states += 1;
                acc.transitions += 2 * syms.len() as u64;
                let text = syms.join(" ");
                let (f, c) = (t2d_obs(&facade, &text), t2d_obs(&conc, &text));
                let (f1, c1) = (interp_obs(&facade, syms), interp_obs(&conc, syms));
                let (f2, c2) = (api_obs(&facade, syms, 10.0), api_obs(&conc, syms, 10.0));
                acc.traces += 3;
                if f != c || f1 != c1 || f2 != c2 {
                    let (what, fo, co) = if f != c { ("text2digits", f, c) } else if f1 != c1 { ("interpreter", f1, c1) } else { ("api", f2, c2) };
                    ctx.report(acc, Violation {
                        lang: l.code().into(),
                        entry: what.into(),
                        input: serde_json::to_string(&syms).unwrap(),
                        threshold: Some(10.0),
                        clause: "f(s, Language::L) = f(s, L::new())".into(),
                        expected: format!("concrete: {co}"),
                        observed: format!("facade: {fo}"),
                    });
                }
            })
        });
        total.merge(a2);
        // words derived from the linking words (hyphen-joined, glued, doubled, with an apostrophe): the facade and the
        // concrete interpreter classify them alike and treat them alike between two small numbers
        {
            let c = vocab::cls(l);
            let links: Vec<&str> = vocab::linking_words(l).iter().copied().filter(|w| !w.contains(' ')).collect();
            let mut derived: Vec<String> = vec![];
            for w1 in &links {
                for w2 in &links {
                    for d in [format!("{w1}-{w2}"), format!("{w1}{w2}"), format!("{w1}'{w2}"), format!("{w1}-{w2}-{w1}")] {
                        if !derived.contains(&d) {
                            derived.push(d);
                        }
                    }
                }
            }
            let a3 = with_concrete!(l, conc => {
                let mut acc = Acc::new();
                for d in &derived {
                    acc.states += 1;
                    acc.traces += 2;
                    let fl = LangInterpreter::is_linking(&facade, d);
                    let cl = LangInterpreter::is_linking(&conc, d);
                    let syms: Vec<&str> = vec![c.one.as_str(), d.as_str(), c.unit.as_str()];
                    let (f2, c2) = (api_obs(&facade, &syms, 10.0), api_obs(&conc, &syms, 10.0));
                    if fl != cl || f2 != c2 {
                        ctx.report(&mut acc, Violation {
                            lang: l.code().into(),
                            entry: if fl != cl { "is_linking".into() } else { "api".into() },
                            input: serde_json::to_string(&syms).unwrap(),
                            threshold: Some(10.0),
                            clause: "f(s, Language::L) = f(s, L::new())".into(),
                            expected: format!("concrete: is_linking={cl} {c2}"),
                            observed: format!("facade: is_linking={fl} {f2}"),
                        });
                    }
                }
                acc
            });
            total.merge(a3);
        }
        // ambiguity annotation on token vectors over the ambiguity alphabet
        let amb: Vec<String> = match l {
            L::En => ["o", "one", "twenty", "xyzzy", ",", " ", "zero", "O"].iter().map(|s| s.to_string()).collect(),
            L::Fr => ["neuf", "un", "le", "du", "l'", "xyzzy", "vingt", "numéro", ",", " ", "virgule"].iter().map(|s| s.to_string()).collect(),
            _ => {
                let c = vocab::cls(l);
                vec![c.one, c.tens, c.ordinary, c.conj, ",".into(), " ".into()]
            }
        };
        let kk = tier.pick(4usize, 5);
        // the same words with the mark already set
        let mut amb = amb;
        let marked: Vec<String> = amb.iter().filter(|w| w.chars().any(|c| c.is_alphabetic())).take(4).map(|w| format!("!{w}")).collect();
        amb.extend(marked);
        let b = with_concrete!(l, conc => {
            explore::all_sequences(&amb, kk, |syms, acc| {
                acc.states += 1;
                acc.traces += 2;
                let (f, c) = (annotate_obs(&facade, syms), annotate_obs(&conc, syms));
                acc.outcome(&f);
                let t = 10.0;
                let (f2, c2) = (api_obs(&facade, syms, t), api_obs(&conc, syms, t));
                if f != c || f2 != c2 {
                    ctx.report(acc, Violation {
                        lang: l.code().into(),
                        entry: "basic_annotate".into(),
                        input: serde_json::to_string(&syms).unwrap(),
                        threshold: Some(t),
                        clause: "ambiguity annotation through the facade = through the concrete interpreter".into(),
                        expected: format!("concrete: {c} {c2}"),
                        observed: format!("facade: {f} {f2}"),
                    });
                }
            })
        });
        total.merge(b);
        total.sample(json!({"lang": l.code(), "words": full.iter().take(3).collect::<Vec<_>>()}));
    }
    total.nontrivial = total.states;

    // ---- ISO codes
    let mut acc = Acc::new();
    // behaviour fingerprint of each built-in language over the union of all vocabularies
    let mut union: Vec<String> = vec![];
    for l in langs::ALL {
        for w in vocab::number_words(l) {
            if !union.contains(&w) {
                union.push(w);
            }
        }
    }
    let prints: Vec<(L, Vec<String>)> = langs::ALL.iter().map(|l| (*l, fingerprint(&l.facade(), &union))).collect();
    for i in 0..prints.len() {
        for j in 0..i {
            if prints[i].1 == prints[j].1 {
                println!("machinery: behaviour fingerprints of {:?} and {:?} coincide", prints[i].0, prints[j].0);
                return 2;
            }
        }
    }
    for l in langs::ALL {
        acc.states += 1;
        acc.traces += 1;
        let got = guard(|| get_interpreter_for(l.code()).map(|x| fingerprint(&x, &union)));
        let obs = match &got {
            Ok(Some(fp)) => match prints.iter().find(|(_, p)| p == fp) {
                Some((m, _)) => format!("Some(behaves as {})", m.code()),
                None => "Some(behaves as no built-in language)".to_string(),
            },
            Ok(None) => "None".to_string(),
            Err(p) => p.clone(),
        };
        let want = format!("Some(behaves as {})", l.code());
        if obs != want {
            ctx.report(&mut acc, Violation { lang: l.code().into(), entry: "get_interpreter_for".into(), input: l.code().into(), threshold: None, clause: "lookup(iso(L)) behaves as L".into(), expected: want, observed: obs });
        }
    }
    // strings that are not language codes must give None
    let iso: Vec<&str> = ISO639_1.split(' ').collect();
    // strings that are not language codes: empty / blank, digits, single letters, two lowercase letters
    // outside ISO 639-1, doubled / prefixed codes, long gibberish, other casings and padded forms of the
    // codes, language names. (Region-tagged forms such as pt-BR and 3-letter ISO 639-2 codes
    // are language codes of other standards and are left unconstrained.)
    let mut non_codes: Vec<String> = vec!["".into(), " ".into(), "1".into(), "42".into(), "0x".into(), "--".into(), "xyzzy".repeat(200)];
    for a in b'a'..=b'z' {
        non_codes.push((a as char).to_string());
        for b in b'a'..=b'z' {
            let s = format!("{}{}", a as char, b as char);
            if !iso.contains(&s.as_str()) {
                non_codes.push(s);
            }
        }
    }
    for l in langs::ALL {
        let c = l.code();
        non_codes.push(format!("{c}{c}"));
        non_codes.push(format!("{c}1"));
        non_codes.push(format!("q{c}"));
        // ISO 639-1 codes are two lower-case letters: other casings and padded forms are not codes
        non_codes.push(c.to_uppercase());
        non_codes.push(format!("{}{}", c[..1].to_uppercase(), &c[1..]));
        non_codes.push(format!(" {c}"));
        non_codes.push(format!("{c} "));
        non_codes.push(format!("{c}\n"));
    }
    // language NAMES are not language codes
    for name in ["english", "English", "french", "français", "francais", "spanish", "español", "castellano", "portuguese", "português", "italian", "italiano", "german", "deutsch", "Deutsch", "dutch", "nederlands"] {
        non_codes.push(name.to_string());
    }
    for s in &non_codes {
        acc.states += 1;
        acc.traces += 1;
        let got = match guard(|| get_interpreter_for(s).is_some()) {
            Ok(false) => "None".to_string(),
            Ok(true) => "Some(_)".to_string(),
            Err(p) => p,
        };
        if got != "None" {
            ctx.report(&mut acc, Violation { lang: "-".into(), entry: "get_interpreter_for".into(), input: s.chars().take(40).collect(), threshold: None, clause: "lookup(c) = None for strings that are not language codes".into(), expected: "None".into(), observed: got });
        }
    }
    acc.sample(json!({"lookup": "pt", "non_codes_tried": non_codes.len()}));
    total.merge(acc);
    let cov = json!({
        "exhaustive": true,
        "rule": "for each of the 7 (Language::L, L::new()) pairs: every word sequence of length <= k over the full vocabulary through text2digits, the interpreter trait methods step by step on a builder, and find/find_iter/replace_stream/replace_text x thresholds; basic_annotate on all token vectors over the ambiguity alphabet; lookup of the 7 ISO codes judged by a behaviour fingerprint over the union vocabulary; every 1-2 letter lowercase string that is not an ISO 639-1 code, plus blank, digits, doubled / prefixed codes and long gibberish, must give None",
        "bounds": {"derived_linking_words": "every ordered pair of one-word linking words joined by hyphen, glued, with an apostrophe, and w1-w2-w1: is_linking and the API between two small numbers at threshold 10", "sigma_full_depth": k, "annotate_depth": tier.pick(4, 5), "fingerprint_words": union.len(), "non_codes": non_codes.len()},
    });
    ctx.finish(total, cov, vec!["other real ISO 639-1 codes (e.g. 'ru'), region-tagged forms (pt-BR) and ISO 639-2 codes are unconstrained".into()])
}
