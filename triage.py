#!/usr/bin/env python3
"""Summarise a VERIF_DUMP jsonl file by (language, entry point, clause). usage: triage.py file [n] [exclude-regex]"""
import json,collections,sys,re
c=collections.Counter(); ex={}
n=int(sys.argv[2]) if len(sys.argv)>2 else 12
exc=re.compile(sys.argv[3]) if len(sys.argv)>3 else None
for l in open(sys.argv[1]):
    v=json.loads(l)
    if exc and exc.search(v['input']): continue
    k=(v['language'],v['entry_point'],v['clause'][:60])
    c[k]+=1; ex.setdefault(k,[]).append((v['input'],v.get('threshold'),v['expected'],v['observed']))
for k,m in sorted(c.items()):
    print(k,m)
    for e in ex[k][:n]: print('   ',e)
