pub mod c01;
pub mod c12;
pub mod c03;
pub mod c06;
pub mod c07;
pub mod c09;
pub mod c15;
