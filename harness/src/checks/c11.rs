//! C11 — letter case never matters (E-SEQ + metamorphic recasing).
use crate::explore;
use crate::infra::*;
use crate::langs::{self, L};
use crate::stream::{self, HTok};
use crate::vocab;
use serde_json::json;
use text2num::{replace_numbers_in_text, text2digits};

const T: [f64; 10] = [f64::NEG_INFINITY, -1.0, 0.0, 1.0, 5.0, 9.0, 10.0, 1000.0, f64::INFINITY, f64::NAN];

fn title(s: &str) -> String {
    let mut c = s.chars();
    match c.next() {
        Some(f) => f.to_uppercase().collect::<String>() + c.as_str(),
        None => String::new(),
    }
}
fn alternating(s: &str) -> String {
    s.chars().enumerate().map(|(i, c)| if i % 2 == 1 { c.to_uppercase().collect::<String>() } else { c.to_string() }).collect()
}

pub fn recasings(lang: &text2num::Language, l: L, words: &[&str]) -> Vec<(&'static str, Vec<String>)> {
    let is_num: Vec<bool> = words.iter().map(|w| *w == l.conj() || *w == l.sep() || matches!(guard(|| text2digits(w, lang)), Ok(Ok(_)))).collect();
    vec![
        ("UPPER", words.iter().map(|w| w.to_uppercase()).collect()),
        ("Title", words.iter().map(|w| title(w)).collect()),
        ("aLtErNaTiNg", words.iter().map(|w| alternating(w)).collect()),
        ("NUMBER words upper", words.iter().zip(&is_num).map(|(w, n)| if *n { w.to_uppercase() } else { w.to_string() }).collect()),
        ("OTHER words upper", words.iter().zip(&is_num).map(|(w, n)| if !*n { w.to_uppercase() } else { w.to_string() }).collect()),
        ("all lower", words.iter().map(|w| w.to_lowercase()).collect()),
        ("only non-ASCII letters upper", words.iter().map(|w| w.chars().map(|c| if c.is_ascii() { c.to_string() } else { c.to_uppercase().collect::<String>() }).collect::<String>()).collect()),
        // capitals that no upper-casing routine produces but that lower-case to a vocabulary letter:
        // U+1E9E CAPITAL SHARP S, U+212A KELVIN SIGN, U+212B ANGSTROM SIGN
        (
            "UPPER with the alternate capitals",
            words
                .iter()
                .map(|w| {
                    w.chars()
                        .map(|c| match c {
                            'ß' => "\u{1e9e}".to_string(),
                            'k' | 'K' => "\u{212a}".to_string(),
                            'å' | 'Å' => "\u{212b}".to_string(),
                            _ => c.to_uppercase().collect::<String>(),
                        })
                        .collect::<String>()
                })
                .collect(),
        ),
    ]
}

fn one_stream(ctx: &Ctx, acc: &mut Acc, l: L, lang: &text2num::Language, syms: &[&str], thrs: &[f64]) {
    acc.states += 1;
    let base_text = syms.join(" ");
    let base_t2d = guard(|| text2digits(&base_text, lang).ok());
    // a leading '~' marks a token unrelated to its predecessor (token-stream path only)
    let hinted = syms.iter().any(|w| w.len() > 1 && w.starts_with('~'));
    let mk = |i: usize, w: &str| if w.len() > 1 && w.starts_with('~') { HTok::decorated(i, w) } else { HTok::new(i, w) };
    let base_toks: Vec<HTok> = syms.iter().enumerate().map(|(i, w)| mk(i, w)).collect();
    // U+0130 lower-cases to 'i' + a combining dot, which the tokenizer treats as a separator
    let has_splitting_capital = base_text.contains('\u{130}');
    for (name, rc) in recasings(lang, l, syms) {
        let text = rc.join(" ");
        if text == base_text || text.to_lowercase() != base_text.to_lowercase() {
            continue; // identical, or the case mapping is not reversible for this text
        }
        acc.nontrivial += 1;
        // validator
        acc.traces += 1;
        let got = if hinted { base_t2d.clone() } else { guard(|| text2digits(&text, lang).ok()) };
        if got != base_t2d {
            ctx.report(acc, Violation { lang: l.code().into(), entry: "text2digits".into(), input: text.clone(), threshold: None, clause: format!("validate(recase(s)) = validate(s) [{name}]"), expected: format!("{base_t2d:?}"), observed: format!("{got:?}") });
        }
        let rc_toks: Vec<HTok> = rc.iter().enumerate().map(|(i, w)| mk(i, w)).collect();
        for &t in thrs {
            acc.transitions += 4 * syms.len() as u64;
            acc.traces += 3;
            // token streams
            let (a, b) = match guard(|| (stream::find(&base_toks, lang, t), stream::find(&rc_toks, lang, t))) {
                Ok(x) => x,
                Err(_) => continue,
            };
            if t == 10.0 {
                acc.outcome(&b);
            }
            if a != b {
                ctx.report(acc, Violation { lang: l.code().into(), entry: "find_tokens".into(), input: serde_json::to_string(&rc).unwrap(), threshold: Some(t), clause: format!("occurrences(recase(s)) = occurrences(s) [{name}]"), expected: stream::show_occs(&a), observed: stream::show_occs(&b) });
                continue;
            }
            if hinted {
                continue;
            }
            // text path: same occurrences, untouched words keep their case
            let r = guard(|| {
                let (_, o1) = stream::find_in_text(&base_text, lang, t);
                let (tk2, o2) = stream::find_in_text(&text, lang, t);
                let out2 = replace_numbers_in_text(&text, lang, t);
                let toks2: Vec<String> = tk2.iter().map(|x| x.text.clone()).collect();
                (o1, o2, out2, toks2)
            });
            let Ok((o1, o2, out2, toks2)) = r else { continue };
            if has_splitting_capital {
                // the lower-case form of this text is segmented differently (combining mark), so token indices
                // are not comparable: compare which numbers are recognised, their digit text and value
                let sig = |v: &Vec<stream::Occ>| v.iter().map(|o| (o.text.clone(), o.value_bits, o.is_ordinal)).collect::<Vec<_>>();
                if sig(&o1) != sig(&o2) {
                    ctx.report(acc, Violation { lang: l.code().into(), entry: "find_text".into(), input: text.clone(), threshold: Some(t), clause: format!("numbers recognised in recase(s) = numbers recognised in s [{name}]"), expected: stream::show_occs(&o1), observed: stream::show_occs(&o2) });
                }
                continue;
            }
            if o1 != o2 {
                ctx.report(acc, Violation { lang: l.code().into(), entry: "find_text".into(), input: text.clone(), threshold: Some(t), clause: format!("occurrences(recase(s)) = occurrences(s) [{name}]"), expected: stream::show_occs(&o1), observed: stream::show_occs(&o2) });
                continue;
            }
            let want = stream::splice(&toks2, &o1);
            if out2 != want {
                ctx.report(acc, Violation { lang: l.code().into(), entry: "replace_text".into(), input: text.clone(), threshold: Some(t), clause: format!("untouched words keep the case they were given [{name}]"), expected: want, observed: out2 });
            }
        }
    }
}

pub fn alphabet(l: L, n: usize) -> Vec<String> {
    let c = vocab::cls(l);
    let mut v = vec![c.one, c.tens, c.ordinary, c.linking, c.unit, c.small_ord, c.conj, c.hundred, ",".to_string(), c.sep, c.unit2, "\u{212a}x".to_string(), "\u{23a}x".to_string(), l.linking()[1].to_string(), c.zero, c.large_ord, c.thousand, ".".to_string(), c.teen, c.million];
    match l {
        L::En => v.insert(10, "o".into()),
        L::Fr => {
            v.insert(10, "le".into());
        }
        _ => {}
    }
    if let Some(x) = c.compound {
        v.push(x);
    }
    let mut out: Vec<String> = vec![];
    for w in v {
        if !out.contains(&w) {
            out.push(w);
        }
    }
    out.truncate(n);
    out
}

pub fn run(tier: Tier) -> i32 {
    let ctx = Ctx::new("C11", tier);
    let (n1, k1, n2, k2) = tier.pick((21usize, 3usize, 14usize, 4usize), (22, 4, 13, 6));
    let mut total = Acc::new();
    let mut alphas = vec![];
    for l in langs::ALL {
        let lang = l.facade();
        // every single vocabulary word, all recasings
        let mut full = vocab::sigma_full(l);
        full.retain(|w| w.chars().any(|c| c.is_alphabetic()));
        // long single-token numbers (compounds, fully hyphenated spellings): six-digit numbers in every variant
        for n in [243_724u64, 777_777, 999_999, 123_456, 757_757] {
            for (_, v) in crate::spell::axes(l) {
                for w in crate::spell::spell(l, n, v).split(' ') {
                    if w.len() > 30 && !full.iter().any(|x| x == w) {
                        full.push(w.to_string());
                    }
                }
            }
        }
        total.merge(explore::all_sequences(&full, tier.pick(1, 2), |syms, acc| one_stream(&ctx, acc, l, &lang, syms, &[0.0, 10.0])));
        let a1 = alphabet(l, n1);
        let a2 = alphabet(l, n2);
        alphas.push(json!({"lang": l.code(), "wide": a1, "deep": a2.len(), "full_words": full.len()}));
        total.merge(explore::all_sequences2(&a1, k1, |syms, acc| one_stream(&ctx, acc, l, &lang, syms, &T)));
        total.merge(explore::all_sequences2(&a2, k2, |syms, acc| {
            if syms.len() > k1 {
                one_stream(&ctx, acc, l, &lang, syms, &[0.0, 10.0])
            }
        }));
        // parts of the two-word linking entries, vocabulary words with an apostrophe in both spellings (' and U+2019),
        // and '~'-hinted tokens: small alphabets, depth 3 / 4
        {
            let c = vocab::cls(l);
            let mut ex: Vec<String> = vec![c.one.clone(), c.unit.clone(), ",".to_string()];
            for e in vocab::linking_words(l) {
                if e.contains(' ') {
                    ex.extend(e.split(' ').map(|w| w.to_string()));
                }
                if e.contains('\'') {
                    ex.push(e.to_string());
                    ex.push(e.replace('\'', "\u{2019}"));
                }
            }
            let mut ex2: Vec<String> = vec![];
            for w in ex {
                if !ex2.contains(&w) {
                    ex2.push(w);
                }
            }
            if ex2.len() > 3 {
                total.merge(explore::all_sequences2(&ex2, 4, |syms, acc| one_stream(&ctx, acc, l, &lang, syms, &[0.0, 10.0])));
            }
            let hw: Vec<String> = vec![c.one.clone(), c.tens.clone(), c.unit.clone(), c.hundred.clone(), c.sep.clone(), c.small_ord.clone(), c.conj.clone(), c.ordinary.clone()];
            let mut ha: Vec<String> = hw.clone();
            ha.extend(hw.iter().map(|w| format!("~{w}")));
            total.merge(explore::all_sequences2(&ha, 3, |syms, acc| {
                if syms.iter().any(|s| s.starts_with('~')) {
                    one_stream(&ctx, acc, l, &lang, syms, &[0.0, 10.0])
                }
            }));
        }
        total.sample(json!({"lang": l.code(), "text": a1.iter().take(4).map(|w| w.to_uppercase()).collect::<Vec<_>>().join(" ")}));
    }
    let cov = json!({
        "exhaustive": true,
        "rule": "every word sequence of length <= k over the class alphabet (+ every vocabulary word alone) in 8 recasings (UPPER, Title, alternating, only number words upper, only other words upper, all lower, only non-ASCII letters upper, UPPER with the alternate capitals U+1E9E / KELVIN SIGN / ANGSTROM SIGN; long single-token six-digit numbers are among the single words; the alphabet contains words with capitals whose lower-case form has another UTF-8 length: KELVIN SIGN (shorter) and U+023A (longer)), kept when lower(recase(s)) = lower(s); token path, text path and validator compared with the lower-case original at every threshold; non-trivial = (sequence, recasing) pairs actually different from the original",
        "bounds": {"wide_alphabet": n1, "wide_depth": k1, "deep_alphabet": n2, "deep_depth": k2},
        "thresholds": T.iter().map(|t| thr_name(*t)).collect::<Vec<_>>(),
        "alphabets": alphas,
    });
    ctx.finish(total, cov, vec!["recasings whose case mapping is not reversible for the text (e.g. ß -> SS) are skipped, as the property's quantifier requires".into()])
}
