//! The seven built-in languages as seen by the harness.
use text2num::lang::{Dutch, English, French, German, Italian, Portuguese, Spanish};
use text2num::Language;

#[derive(Clone, Copy, PartialEq, Eq, Debug, Hash, PartialOrd, Ord)]
pub enum L {
    En,
    Fr,
    Es,
    Pt,
    It,
    De,
    Nl,
}

pub const ALL: [L; 7] = [L::En, L::Fr, L::Es, L::Pt, L::It, L::De, L::Nl];

impl L {
    pub fn code(self) -> &'static str {
        match self {
            L::En => "en",
            L::Fr => "fr",
            L::Es => "es",
            L::Pt => "pt",
            L::It => "it",
            L::De => "de",
            L::Nl => "nl",
        }
    }
    pub fn from_code(c: &str) -> Option<L> {
        ALL.iter().copied().find(|l| l.code() == c)
    }
    pub fn facade(self) -> Language {
        match self {
            L::En => Language::english(),
            L::Fr => Language::french(),
            L::Es => Language::spanish(),
            L::Pt => Language::portuguese(),
            L::It => Language::italian(),
            L::De => Language::german(),
            L::Nl => Language::dutch(),
        }
    }
    /// decimal separator word
    pub fn sep(self) -> &'static str {
        match self {
            L::En => "point",
            L::Fr => "virgule",
            L::Es => "coma",
            L::Pt => "vírgula",
            L::It => "virgola",
            L::De | L::Nl => "komma",
        }
    }
    /// decimal mark of the digit form
    pub fn mark(self) -> char {
        if self == L::En {
            '.'
        } else {
            ','
        }
    }
    pub fn conj(self) -> &'static str {
        match self {
            L::En => "and",
            L::Fr => "et",
            L::Es => "y",
            L::Pt | L::It => "e",
            L::De => "und",
            L::Nl => "en",
        }
    }
    pub fn zero(self) -> &'static str {
        match self {
            L::En | L::Pt | L::It => "zero",
            L::Fr => "zéro",
            L::Es => "cero",
            L::De => "null",
            L::Nl => "nul",
        }
    }
    /// two words that are linking words (members of the language's insignificant set)
    pub fn linking(self) -> [&'static str; 2] {
        match self {
            L::En => ["plus", "is"],
            L::Fr => ["plus", "puis"],
            L::Es => ["mas", "es"],
            L::Pt => ["mais", "é"],
            L::It => ["più", "è"],
            L::De => ["aber", "auch"],
            L::Nl => ["plus", "is"],
        }
    }
    /// ordinal markers the language can attach to digits (longest first)
    pub fn markers(self) -> &'static [&'static str] {
        match self {
            L::En => &["ths", "rds", "th", "st", "nd", "rd"],
            L::Fr => &["èmes", "ères", "ème", "ère", "ers", "er"],
            L::Es => &[".ᵉʳ", "ᵒˢ", "ᵃˢ", "º", "ª"],
            L::Pt => &["ᵒˢ", "ᵃˢ", "º", "ª"],
            L::It => &["º", "ª"],
            L::De => &["."],
            L::Nl => &["e"],
        }
    }
}

/// Dispatch on the concrete interpreter type of `$l`.
#[macro_export]
macro_rules! with_concrete {
    ($l:expr, $i:ident => $body:expr) => {
        match $l {
            $crate::langs::L::En => {
                let $i = text2num::lang::English::new();
                $body
            }
            $crate::langs::L::Fr => {
                let $i = text2num::lang::French::new();
                $body
            }
            $crate::langs::L::Es => {
                let $i = text2num::lang::Spanish::new();
                $body
            }
            $crate::langs::L::Pt => {
                let $i = text2num::lang::Portuguese::new();
                $body
            }
            $crate::langs::L::It => {
                let $i = text2num::lang::Italian::new();
                $body
            }
            $crate::langs::L::De => {
                let $i = text2num::lang::German::new();
                $body
            }
            $crate::langs::L::Nl => {
                let $i = text2num::lang::Dutch::new();
                $body
            }
        }
    };
}

#[allow(dead_code)]
fn _types(_: (English, French, Spanish, Portuguese, Italian, German, Dutch)) {}

pub const ORDINARY: [&str; 3] = ["xyzzy", "plugh", "qwfp"];
