//! Drop-in replacement for `std::sync` used ONLY in the scheduler-instrumented copy of the
//! library that C14 builds (the copy is generated under target/, /repo is never touched):
//! every synchronisation operation first reaches a scheduling point, and lock acquisitions never
//! block in the OS — they retry through `blocked` points — so a controlled scheduler owns every
//! interleaving of the code's own synchronisation, not just the callbacks.
#![allow(dead_code, clippy::all)]
pub use ::std::sync::*;

static HOOKS: ::std::sync::OnceLock<(fn(), fn())> = ::std::sync::OnceLock::new();

/// `yield_hook` is called before every synchronisation operation, `blocked_hook` when a lock
/// could not be taken (the caller retries after it returns).
pub fn set_hooks(yield_hook: fn(), blocked_hook: fn()) {
    let _ = HOOKS.set((yield_hook, blocked_hook));
}
#[inline]
fn y() {
    if let Some((f, _)) = HOOKS.get() {
        f()
    }
}
#[inline]
fn b() {
    match HOOKS.get() {
        Some((_, f)) => f(),
        None => ::std::thread::yield_now(),
    }
}

pub struct Mutex<T: ?Sized> {
    inner: ::std::sync::Mutex<T>,
}
impl<T> Mutex<T> {
    pub const fn new(t: T) -> Self {
        Self { inner: ::std::sync::Mutex::new(t) }
    }
    pub fn into_inner(self) -> LockResult<T> {
        self.inner.into_inner()
    }
}
impl<T: ?Sized> Mutex<T> {
    pub fn lock(&self) -> LockResult<MutexGuard<'_, T>> {
        y();
        loop {
            match self.inner.try_lock() {
                Ok(g) => return Ok(g),
                Err(TryLockError::Poisoned(p)) => return Err(p),
                Err(TryLockError::WouldBlock) => b(),
            }
        }
    }
    pub fn try_lock(&self) -> TryLockResult<MutexGuard<'_, T>> {
        y();
        self.inner.try_lock()
    }
    pub fn is_poisoned(&self) -> bool {
        self.inner.is_poisoned()
    }
    pub fn clear_poison(&self) {
        self.inner.clear_poison()
    }
    pub fn get_mut(&mut self) -> LockResult<&mut T> {
        self.inner.get_mut()
    }
}
impl<T: Default> Default for Mutex<T> {
    fn default() -> Self {
        Self::new(T::default())
    }
}
impl<T> From<T> for Mutex<T> {
    fn from(t: T) -> Self {
        Self::new(t)
    }
}
impl<T: ?Sized + ::std::fmt::Debug> ::std::fmt::Debug for Mutex<T> {
    fn fmt(&self, f: &mut ::std::fmt::Formatter<'_>) -> ::std::fmt::Result {
        self.inner.fmt(f)
    }
}

pub struct RwLock<T: ?Sized> {
    inner: ::std::sync::RwLock<T>,
}
impl<T> RwLock<T> {
    pub const fn new(t: T) -> Self {
        Self { inner: ::std::sync::RwLock::new(t) }
    }
    pub fn into_inner(self) -> LockResult<T> {
        self.inner.into_inner()
    }
}
impl<T: ?Sized> RwLock<T> {
    pub fn read(&self) -> LockResult<RwLockReadGuard<'_, T>> {
        y();
        loop {
            match self.inner.try_read() {
                Ok(g) => return Ok(g),
                Err(TryLockError::Poisoned(p)) => return Err(p),
                Err(TryLockError::WouldBlock) => b(),
            }
        }
    }
    pub fn write(&self) -> LockResult<RwLockWriteGuard<'_, T>> {
        y();
        loop {
            match self.inner.try_write() {
                Ok(g) => return Ok(g),
                Err(TryLockError::Poisoned(p)) => return Err(p),
                Err(TryLockError::WouldBlock) => b(),
            }
        }
    }
    pub fn try_read(&self) -> TryLockResult<RwLockReadGuard<'_, T>> {
        y();
        self.inner.try_read()
    }
    pub fn try_write(&self) -> TryLockResult<RwLockWriteGuard<'_, T>> {
        y();
        self.inner.try_write()
    }
    pub fn is_poisoned(&self) -> bool {
        self.inner.is_poisoned()
    }
    pub fn get_mut(&mut self) -> LockResult<&mut T> {
        self.inner.get_mut()
    }
}
impl<T: Default> Default for RwLock<T> {
    fn default() -> Self {
        Self::new(T::default())
    }
}
impl<T> From<T> for RwLock<T> {
    fn from(t: T) -> Self {
        Self::new(t)
    }
}
impl<T: ?Sized + ::std::fmt::Debug> ::std::fmt::Debug for RwLock<T> {
    fn fmt(&self, f: &mut ::std::fmt::Formatter<'_>) -> ::std::fmt::Result {
        self.inner.fmt(f)
    }
}

pub struct OnceLock<T> {
    inner: ::std::sync::OnceLock<T>,
}
impl<T> OnceLock<T> {
    pub const fn new() -> Self {
        Self { inner: ::std::sync::OnceLock::new() }
    }
    pub fn get(&self) -> Option<&T> {
        y();
        self.inner.get()
    }
    pub fn get_mut(&mut self) -> Option<&mut T> {
        self.inner.get_mut()
    }
    pub fn set(&self, value: T) -> Result<(), T> {
        y();
        self.inner.set(value)
    }
    pub fn get_or_init<F: FnOnce() -> T>(&self, f: F) -> &T {
        y();
        self.inner.get_or_init(f)
    }
    pub fn into_inner(self) -> Option<T> {
        self.inner.into_inner()
    }
    pub fn take(&mut self) -> Option<T> {
        self.inner.take()
    }
}
impl<T> Default for OnceLock<T> {
    fn default() -> Self {
        Self::new()
    }
}
impl<T: ::std::fmt::Debug> ::std::fmt::Debug for OnceLock<T> {
    fn fmt(&self, f: &mut ::std::fmt::Formatter<'_>) -> ::std::fmt::Result {
        self.inner.fmt(f)
    }
}

pub struct LazyLock<T, F = fn() -> T> {
    inner: ::std::sync::LazyLock<T, F>,
}
impl<T, F: FnOnce() -> T> LazyLock<T, F> {
    pub const fn new(f: F) -> Self {
        Self { inner: ::std::sync::LazyLock::new(f) }
    }
    pub fn force(this: &Self) -> &T {
        y();
        ::std::sync::LazyLock::force(&this.inner)
    }
}
impl<T, F: FnOnce() -> T> ::std::ops::Deref for LazyLock<T, F> {
    type Target = T;
    fn deref(&self) -> &T {
        y();
        &*self.inner
    }
}

pub mod atomic {
    pub use ::std::sync::atomic::{compiler_fence, fence, Ordering};
    macro_rules! int_atomic {
        ($name:ident, $t:ty) => {
            #[derive(Debug, Default)]
            pub struct $name {
                inner: ::std::sync::atomic::$name,
            }
            impl $name {
                pub const fn new(v: $t) -> Self {
                    Self { inner: ::std::sync::atomic::$name::new(v) }
                }
                pub fn load(&self, o: Ordering) -> $t {
                    super::y();
                    self.inner.load(o)
                }
                pub fn store(&self, v: $t, o: Ordering) {
                    super::y();
                    self.inner.store(v, o)
                }
                pub fn swap(&self, v: $t, o: Ordering) -> $t {
                    super::y();
                    self.inner.swap(v, o)
                }
                pub fn compare_exchange(&self, c: $t, n: $t, s: Ordering, f: Ordering) -> Result<$t, $t> {
                    super::y();
                    self.inner.compare_exchange(c, n, s, f)
                }
                pub fn compare_exchange_weak(&self, c: $t, n: $t, s: Ordering, f: Ordering) -> Result<$t, $t> {
                    super::y();
                    self.inner.compare_exchange(c, n, s, f)
                }
                pub fn fetch_add(&self, v: $t, o: Ordering) -> $t {
                    super::y();
                    self.inner.fetch_add(v, o)
                }
                pub fn fetch_sub(&self, v: $t, o: Ordering) -> $t {
                    super::y();
                    self.inner.fetch_sub(v, o)
                }
                pub fn fetch_and(&self, v: $t, o: Ordering) -> $t {
                    super::y();
                    self.inner.fetch_and(v, o)
                }
                pub fn fetch_or(&self, v: $t, o: Ordering) -> $t {
                    super::y();
                    self.inner.fetch_or(v, o)
                }
                pub fn fetch_xor(&self, v: $t, o: Ordering) -> $t {
                    super::y();
                    self.inner.fetch_xor(v, o)
                }
                pub fn fetch_max(&self, v: $t, o: Ordering) -> $t {
                    super::y();
                    self.inner.fetch_max(v, o)
                }
                pub fn fetch_min(&self, v: $t, o: Ordering) -> $t {
                    super::y();
                    self.inner.fetch_min(v, o)
                }
                pub fn fetch_update<F: FnMut($t) -> Option<$t>>(&self, s: Ordering, f: Ordering, g: F) -> Result<$t, $t> {
                    super::y();
                    self.inner.fetch_update(s, f, g)
                }
                pub fn get_mut(&mut self) -> &mut $t {
                    self.inner.get_mut()
                }
                pub fn into_inner(self) -> $t {
                    self.inner.into_inner()
                }
            }
            impl From<$t> for $name {
                fn from(v: $t) -> Self {
                    Self::new(v)
                }
            }
        };
    }
    int_atomic!(AtomicUsize, usize);
    int_atomic!(AtomicIsize, isize);
    int_atomic!(AtomicU64, u64);
    int_atomic!(AtomicI64, i64);
    int_atomic!(AtomicU32, u32);
    int_atomic!(AtomicI32, i32);
    int_atomic!(AtomicU16, u16);
    int_atomic!(AtomicU8, u8);

    #[derive(Debug, Default)]
    pub struct AtomicBool {
        inner: ::std::sync::atomic::AtomicBool,
    }
    impl AtomicBool {
        pub const fn new(v: bool) -> Self {
            Self { inner: ::std::sync::atomic::AtomicBool::new(v) }
        }
        pub fn load(&self, o: Ordering) -> bool {
            super::y();
            self.inner.load(o)
        }
        pub fn store(&self, v: bool, o: Ordering) {
            super::y();
            self.inner.store(v, o)
        }
        pub fn swap(&self, v: bool, o: Ordering) -> bool {
            super::y();
            self.inner.swap(v, o)
        }
        pub fn compare_exchange(&self, c: bool, n: bool, s: Ordering, f: Ordering) -> Result<bool, bool> {
            super::y();
            self.inner.compare_exchange(c, n, s, f)
        }
        pub fn compare_exchange_weak(&self, c: bool, n: bool, s: Ordering, f: Ordering) -> Result<bool, bool> {
            super::y();
            self.inner.compare_exchange(c, n, s, f)
        }
        pub fn fetch_and(&self, v: bool, o: Ordering) -> bool {
            super::y();
            self.inner.fetch_and(v, o)
        }
        pub fn fetch_or(&self, v: bool, o: Ordering) -> bool {
            super::y();
            self.inner.fetch_or(v, o)
        }
        pub fn fetch_xor(&self, v: bool, o: Ordering) -> bool {
            super::y();
            self.inner.fetch_xor(v, o)
        }
        pub fn get_mut(&mut self) -> &mut bool {
            self.inner.get_mut()
        }
        pub fn into_inner(self) -> bool {
            self.inner.into_inner()
        }
    }
}
