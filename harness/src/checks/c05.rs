//! C05 — decimal round-trip (E-SWEEP).
use crate::checks::c01::G_Q;
use crate::infra::*;
use crate::langs::{self, L};
use crate::spell::{self, Var};
use crate::stream;
use serde_json::json;
use text2num::replace_numbers_in_text;

const EN_D: [&str; 10] = ["zero", "one", "two", "three", "four", "five", "six", "seven", "eight", "nine"];
const DE_D: [&str; 10] = ["null", "eins", "zwei", "drei", "vier", "fünf", "sechs", "sieben", "acht", "neun"];

/// Spoken form of the fraction digit string `d` in language `l`.
pub fn spell_fraction(l: L, d: &str) -> String {
    match l {
        L::En | L::De => {
            let tab = if l == L::En { &EN_D } else { &DE_D };
            d.bytes().map(|c| tab[(c - b'0') as usize]).collect::<Vec<_>>().join(" ")
        }
        _ => {
            let zeros = d.bytes().take_while(|&c| c == b'0').count();
            let rest = &d[zeros..];
            let mut words: Vec<String> = (0..zeros).map(|_| l.zero().to_string()).collect();
            if !rest.is_empty() {
                words.push(spell::spell(l, rest.parse().unwrap(), Var::default()));
            }
            words.join(" ")
        }
    }
}

fn int_set(tier: Tier) -> Vec<u64> {
    match tier {
        Tier::Quick => {
            let mut v: Vec<u64> = vec![0, 1, 2, 3, 5, 7, 8, 9, 10, 11, 12, 16, 17, 19, 20, 21, 22, 28, 30, 31, 40, 60, 61, 70, 71, 77, 80, 81, 88, 90, 91, 99, 100, 101, 110, 121, 180, 181, 200, 300, 999, 1000, 1001, 1100, 1999, 2000, 2021, 10000, 21000, 100000, 101101, 999999, 1000000, 1000001, 2000000, 21000021, 1000000000, 2001000000, 999999999, 123456789];
            v.sort();
            v.dedup();
            v
        }
        Tier::Thorough => {
            let mut v: Vec<u64> = (0..1000).collect();
            for a in G_Q {
                for b in G_Q {
                    for c in G_Q {
                        v.push((a as u64 * 1000 + b as u64) * 1000 + c as u64);
                    }
                }
            }
            v.sort();
            v.dedup();
            v
        }
    }
}

fn frac_set(_tier: Tier) -> Vec<String> {
    let mut v = vec![];
    let maxlen = 4;
    for len in 1..=maxlen {
        for x in 0..10u32.pow(len) {
            v.push(format!("{:0width$}", x, width = len as usize));
        }
    }
    {
        // structured longer fractions (both tiers): leading zeros in front of every word-class combination
        let reps: Vec<u32> = (1..100).chain([100, 101, 110, 121, 180, 181, 200, 280, 300, 999, 1000, 1001, 1100, 1999, 2000, 2021, 9999, 10000, 10001, 12345, 20021, 99999, 100000, 100001, 123456, 999999]).collect();
        for len in [5usize, 6] {
            for r in &reps {
                let rs = r.to_string();
                if rs.len() > len {
                    continue;
                }
                v.push(format!("{}{}", "0".repeat(len - rs.len()), rs));
            }
            v.push("0".repeat(len));
        }
        // fractions that need a million / milliard word (7 to 12 digits), with and without leading zeros
        for r in [1_000_000u64, 1_000_001, 1_415_926, 2_000_000, 2_500_001, 21_000_000, 100_000_000, 123_456_789, 999_999_999, 1_000_000_000, 2_000_000_001, 123_456_789_012] {
            let rs = r.to_string();
            v.push(rs.clone());
            v.push(format!("0{rs}"));
            v.push(format!("00{rs}"));
        }
        v.sort();
        v.dedup();
    }
    v
}

pub fn run(tier: Tier) -> i32 {
    let ctx = Ctx::new("C05", tier);
    let ints = int_set(tier);
    let fracs = frac_set(tier);
    // integer sweep (quick tier; the thorough tier has every integer below 1000 in its main set): no integer part is
    // special — every integer below 1000 that the main set lacks, with six short fractions
    let ints2: Vec<u64> = if tier == Tier::Quick { (0..1000u64).filter(|n| !ints.contains(n)).collect() } else { vec![] };
    let fracs2: Vec<String> = ["0", "5", "05", "10", "25", "99"].iter().map(|x| x.to_string()).collect();
    let mut shards: Vec<(L, usize, usize, u8)> = vec![];
    let step = (ints.len() / 24).max(1);
    for l in langs::ALL {
        let mut lo = 0;
        while lo < ints.len() {
            let hi = (lo + step).min(ints.len());
            shards.push((l, lo, hi, 0));
            lo = hi;
        }
        let mut lo = 0;
        while lo < ints2.len() {
            let hi = (lo + 40).min(ints2.len());
            shards.push((l, lo, hi, 1));
            lo = hi;
        }
    }
    let frames: [(&str, &str); 3] = [("xyzzy ", " plugh"), ("", ""), ("xyzzy, ", ".")];
    let mut acc = par_shards(shards, |&(l, lo, hi, stage), acc| {
        let lang = l.facade();
        let (ints_s, fracs_s): (&[u64], &[String]) = if stage == 0 { (&ints, &fracs) } else { (&ints2, &fracs2) };
        let fr_spoken: Vec<String> = fracs_s.iter().map(|d| spell_fraction(l, d)).collect();
        for &n in &ints_s[lo..hi] {
            let int_text = spell::spell(l, n, Var::default());
            if l == L::De && int_text.contains("eine ") {
                continue; // known finding of C01 (de 'eine Million'), not this property's subject
            }
            for (d, spoken) in fracs_s.iter().zip(fr_spoken.iter()) {
                acc.states += 1;
                let phrase = format!("{int_text} {} {spoken}", l.sep());
                let want_num = format!("{n}{}{d}", l.mark());
                let nframes = if d.len() <= 2 { 3 } else { 1 };
                // French: an article in front of the number (the 'neuf' rule looks two and three words back)
                let fr_frames: [(&str, &str); 3] = [("du ", " environ"), ("le ", ""), ("le xyzzy ", " plugh")];
                // (not with the bare integer 'neuf': after an article and a noun it is read as the adjective — the library's heuristic)
                let extra: &[(&str, &str)] = if l == L::Fr && d.len() <= 2 && d.starts_with('9') && n != 9 { &fr_frames } else { &[] };
                for (pre, suf) in frames.iter().take(nframes).chain(extra.iter()) {
                    let s = format!("{pre}{phrase}{suf}");
                    let exp = format!("{pre}{want_num}{suf}");
                    acc.traces += 1;
                    acc.transitions += phrase.split(' ').count() as u64;
                    let got = match guard(|| replace_numbers_in_text(&s, &lang, 0.0)) {
                        Ok(x) => x,
                        Err(p) => p,
                    };
                    if got != exp {
                        ctx.report(acc, Violation {
                            lang: l.code().into(),
                            entry: "replace_text".into(),
                            input: s.clone(),
                            threshold: Some(0.0),
                            clause: "rewrite(int sep frac) = int mark frac, every digit and leading zero kept".into(),
                            expected: exp,
                            observed: got,
                        });
                    }
                }
                // value and threshold independence on the plain frame
                if d.len() <= 2 || n < 100 {
                    let s = format!("xyzzy {phrase} plugh");
                    acc.traces += 1;
                    if let Ok((_, occs)) = guard(|| stream::find_in_text(&s, &lang, 1000.0)) {
                        let v: f64 = format!("{n}.{d}").parse().unwrap();
                        let ok = occs.len() == 1 && occs[0].text == want_num && occs[0].value() == v && !occs[0].is_ordinal;
                        acc.outcome(&occs);
                        if !ok {
                            ctx.report(acc, Violation {
                                lang: l.code().into(),
                                entry: "find_text".into(),
                                input: s,
                                threshold: Some(1000.0),
                                clause: "one occurrence at every threshold, value = n.d".into(),
                                expected: format!("one occurrence text={want_num} value={v}"),
                                observed: stream::show_occs(&occs),
                            });
                        }
                    }
                }
            }
            // English and German (digit-by-digit dictation): fractions of every length from 13 to 64 digits
            if matches!(l, L::En | L::De) && (n == 3 || n == 120) {
                const PI: &str = "14159265358979323846264338327950288419716939937510582097494459230781";
                for len in 13..=64usize {
                    for d in [PI[..len].to_string(), "9".repeat(len), format!("{}1", "0".repeat(len - 1))] {
                        acc.states += 1;
                        acc.traces += 1;
                        let s = format!("xyzzy {int_text} {} {} plugh", l.sep(), spell_fraction(l, &d));
                        let exp = format!("xyzzy {n}{}{d} plugh", l.mark());
                        let got = guard(|| replace_numbers_in_text(&s, &lang, 0.0)).unwrap_or_else(|p| p);
                        if got != exp {
                            ctx.report(acc, Violation { lang: l.code().into(), entry: "replace_text".into(), input: s.clone(), threshold: Some(0.0), clause: "rewrite(int sep frac) = int mark frac, every dictated digit kept (long fraction)".into(), expected: exp, observed: got });
                        }
                        // its value is that decimal: the double nearest to the written numeral
                        if let Ok((_, occs)) = guard(|| stream::find_in_text(&s, &lang, 0.0)) {
                            let v: f64 = format!("{n}.{d}").parse().unwrap();
                            if occs.len() == 1 && occs[0].value().to_bits() != v.to_bits() {
                                ctx.report(acc, Violation { lang: l.code().into(), entry: "find_text".into(), input: s, threshold: Some(0.0), clause: "the value of a decimal is the double nearest to its numeral (long fraction)".into(), expected: format!("{v:e}"), observed: format!("{:e}", occs[0].value()) });
                            }
                        }
                    }
                }
            }
            // English: the same fractions dictated with the zero alias 'o'
            if l == L::En && (n < 10 || n == 120) {
                for (d, spoken) in fracs_s.iter().zip(fr_spoken.iter()) {
                    // a lone 'o' between the separator and an ordinary word has no number word next to it: by
                    // the 'o' rule (C18) it is then an ordinary word, so that case is not a decimal
                    if !d.contains('0') {
                        continue;
                    }
                    acc.states += 1;
                    acc.traces += 1;
                    for alias in ["o", "nought"] {
                        if alias == "o" && d == "0" {
                            continue;
                        }
                        let spoken_o = spoken.split(' ').map(|w| if w == "zero" { alias } else { w }).collect::<Vec<_>>().join(" ");
                        let s = format!("xyzzy {int_text} {} {spoken_o} plugh", l.sep());
                        let exp = format!("xyzzy {n}{}{d} plugh", l.mark());
                        let got = guard(|| replace_numbers_in_text(&s, &lang, 0.0)).unwrap_or_else(|p| p);
                        if got != exp {
                            ctx.report(acc, Violation { lang: l.code().into(), entry: "replace_text".into(), input: s, threshold: Some(0.0), clause: format!("rewrite(int sep frac) = int mark frac, zeros dictated as '{alias}'"), expected: exp, observed: got });
                        }
                    }
                }
            }
            // negative cases: the separator word stays a word
            let sep = l.sep();
            let zero_frac = spell_fraction(l, "15");
            let mut negs: Vec<(String, String)> = vec![
                (format!("xyzzy {sep} {zero_frac} plugh"), "separator with no number before it".into()),
                (format!("xyzzy {int_text} {sep} plugh"), "separator followed by an ordinary word".into()),
                (format!("xyzzy {int_text} {sep}, plugh"), "separator followed by punctuation".into()),
                (format!("xyzzy {int_text} {sep}"), "separator at the end of the text".into()),
            ];
            // a second separator: directly after the first (nothing usable after it), and inside a fraction already
            // begun (the decimal ends there; the second separator stays a word)
            {
                let d5 = spell_fraction(l, "5");
                let d1 = spell_fraction(l, "1");
                let m = l.mark();
                for (s, exp, what) in [
                    (format!("xyzzy {int_text} {sep} {sep} {d5} plugh"), format!("xyzzy {n} {sep} {sep} 5 plugh"), "two separators in a row"),
                    (format!("xyzzy {int_text} {sep} {d1} {sep} {d5} plugh"), format!("xyzzy {n}{m}1 {sep} 5 plugh"), "a separator inside a fraction"),
                ] {
                    acc.states += 1;
                    acc.traces += 1;
                    let got = guard(|| replace_numbers_in_text(&s, &lang, 0.0)).unwrap_or_else(|p| p);
                    if got != exp {
                        ctx.report(acc, Violation { lang: l.code().into(), entry: "replace_text".into(), input: s, threshold: Some(0.0), clause: format!("{what}: the second separator is left as a word"), expected: exp, observed: got });
                    }
                }
            }
            if l == L::De || l == L::En {
                let teen = spell::spell(l, 15, Var::default());
                negs.push((format!("xyzzy {int_text} {sep} {teen} plugh"), "fraction not dictated digit by digit".into()));
            }
            for (s, what) in negs {
                acc.states += 1;
                acc.traces += 1;
                let got = match guard(|| replace_numbers_in_text(&s, &lang, 0.0)) {
                    Ok(x) => x,
                    Err(p) => p,
                };
                let has_sep_word = got.split(|c: char| !c.is_alphanumeric()).any(|w| w == sep);
                let int_rewritten = !s.contains(&format!(" {int_text} ")) || got.contains(&format!(" {n} "));
                if !has_sep_word || !int_rewritten {
                    ctx.report(acc, Violation {
                        lang: l.code().into(),
                        entry: "replace_text".into(),
                        input: s.clone(),
                        threshold: Some(0.0),
                        clause: format!("{what}: the separator is left as a word"),
                        expected: format!("the word {sep:?} still present, integer part rewritten as {n}"),
                        observed: got,
                    });
                }
            }
            if acc.samples.len() < 3 {
                acc.sample(json!({"lang": l.code(), "n": n, "phrase": format!("{int_text} {} {}", l.sep(), fr_spoken[fr_spoken.len() / 2])}));
            }
        }
    });
    // long integer parts: 1..=24 spoken zeros in front of a 1-, 2-, 11- and 12-digit integer, then a fraction (the
    // integer part then exceeds 15, 17 and 20 digits: beyond f64, u64 precision)
    for l in langs::ALL {
        let lang = l.facade();
        for n in [7u64, 12, 12_000_000_000, 999_999_999_999] {
            let int_text = spell::spell(l, n, Var::default());
            if l == L::De && int_text.contains("eine ") {
                continue;
            }
            for k in 1..=24usize {
                for d in ["5", "25", "05"] {
                    acc.states += 1;
                    acc.traces += 1;
                    let zeros = vec![l.zero(); k].join(" ");
                    let s = format!("xyzzy {zeros} {int_text} {} {} plugh", l.sep(), spell_fraction(l, d));
                    let exp = format!("xyzzy {}{n}{}{d} plugh", "0".repeat(k), l.mark());
                    let got = guard(|| replace_numbers_in_text(&s, &lang, 0.0)).unwrap_or_else(|p| p);
                    if got != exp {
                        ctx.report(&mut acc, Violation { lang: l.code().into(), entry: "replace_text".into(), input: s, threshold: Some(0.0), clause: "rewrite(zeros int sep frac) = zeros int mark frac, every digit and leading zero kept (long integer part)".into(), expected: exp, observed: got });
                    }
                }
            }
        }
    }
    acc.nontrivial = acc.states;
    let cov = json!({
        "exhaustive": true,
        "rule": "every (language, integer part from I, fraction digit string from D) rendered by the reference spellers (digit by digit in en/de, zeros + number otherwise), rewritten at threshold 0 in up to 3 frames; occurrence value checked at threshold 1000; plus negative cases per integer",
        "bounds": {"long_integer_parts": "1..=24 spoken zeros x integers 7, 12, 12e9, 999 999 999 999 x fractions 5, 25, 05", "integer_sweep": format!("{} further integers below 1000 x fractions 0, 5, 05, 10, 25, 99", ints2.len()), "integers": ints.len(), "fractions": fracs.len(), "fraction_lengths": format!("all digit strings of length <= {}; plus structured lengths 5-6 (zeros in front of ~125 representative numbers) and 36 fractions of 7-14 digits (scale words inside the fraction); en/de: dictated fractions of every length 13..64", 4)},
    });
    ctx.finish(acc, cov, vec![
        "integer parts are a representative set (quick) or all n < 1000 plus the 16^3 group product (thorough), not all n < 10^9".into(),
        "de integer parts spelled with 'eine Million' are skipped (known finding of C01)".into(),
    ])
}
