//! Token-stream helpers: a harness-owned token type with hints, observation of occurrences,
//! and the text path through the real tokenizer (hook `verif`).
use text2num::verif::{tokenize, BasicToken};
use text2num::{find_numbers, find_numbers_iter, LangInterpreter, Occurence, Replace, Token};

/// Harness-owned token. `sep`: declares itself unrelated to its predecessor; `nan`: not a number part.
#[derive(Clone, Debug, PartialEq, Eq, Hash)]
pub struct HTok {
    pub id: usize,
    pub text: String,
    pub lower: String,
    pub sep: bool,
    pub nan: bool,
    /// set when this token was built by `Replace::replace`: ids it was handed, in order
    pub replaced: Option<Vec<usize>>,
}

impl HTok {
    pub fn new(id: usize, text: &str) -> HTok {
        HTok { id, text: text.to_string(), lower: text.to_lowercase(), sep: false, nan: false, replaced: None }
    }
    /// parse a decorated symbol: leading '~' = separated, leading '!' = not a number part
    pub fn decorated(id: usize, sym: &str) -> HTok {
        let (sep, nan, text) = if let Some(t) = sym.strip_prefix('~') {
            (true, false, t)
        } else if let Some(t) = sym.strip_prefix('!') {
            (false, true, t)
        } else {
            (false, false, sym)
        };
        HTok { sep, nan, ..HTok::new(id, text) }
    }
}

impl Token for &HTok {
    fn text(&self) -> &str {
        &self.text
    }
    fn text_lowercase(&self) -> &str {
        &self.lower
    }
    fn nt_separated(&self, _previous: &Self) -> bool {
        self.sep
    }
    fn not_a_number_part(&self) -> bool {
        self.nan
    }
}

impl Replace for HTok {
    fn replace<I: Iterator<Item = Self>>(replaced: I, data: String) -> Self {
        let ids: Vec<usize> = replaced.map(|t| t.id).collect();
        HTok { id: usize::MAX, lower: data.to_lowercase(), text: data, sep: false, nan: false, replaced: Some(ids) }
    }
}

impl text2num::BasicAnnotate for HTok {
    fn text_lowercase(&self) -> &str {
        &self.lower
    }
    fn set_nan(&mut self, val: bool) {
        self.nan = val
    }
}

pub fn htoks(words: &[&str]) -> Vec<HTok> {
    words.iter().enumerate().map(|(i, w)| HTok::decorated(i, w)).collect()
}

/// Observable content of an occurrence (value compared bitwise so NaN/−0 cannot hide).
#[derive(Clone, Debug, PartialEq, Eq, Hash, PartialOrd, Ord)]
pub struct Occ {
    pub start: usize,
    pub end: usize,
    pub text: String,
    pub value_bits: u64,
    pub is_ordinal: bool,
}

impl Occ {
    pub fn of(o: &Occurence) -> Occ {
        Occ { start: o.start, end: o.end, text: o.text.clone(), value_bits: o.value.to_bits(), is_ordinal: o.is_ordinal }
    }
    pub fn value(&self) -> f64 {
        f64::from_bits(self.value_bits)
    }
    pub fn show(&self) -> String {
        format!("[{}..{}) {:?} ={} ord={}", self.start, self.end, self.text, self.value(), self.is_ordinal)
    }
}

pub fn show_occs(v: &[Occ]) -> String {
    v.iter().map(|o| o.show()).collect::<Vec<_>>().join(" ")
}

pub fn find<L: LangInterpreter>(toks: &[HTok], lang: &L, thr: f64) -> Vec<Occ> {
    find_numbers(toks.iter(), lang, thr).iter().map(Occ::of).collect()
}

pub fn find_iter<L: LangInterpreter>(toks: &[HTok], lang: &L, thr: f64) -> Vec<Occ> {
    find_numbers_iter(toks.iter(), lang, thr).map(|o| Occ::of(&o)).collect()
}

/// The real tokens of `text`, annotated exactly as `replace_numbers_in_text` does.
pub fn real_tokens<L: LangInterpreter>(text: &str, lang: &L) -> Vec<BasicToken> {
    let mut tokens: Vec<BasicToken> = tokenize(text).collect();
    lang.basic_annotate(&mut tokens);
    tokens
}

pub fn find_in_text<L: LangInterpreter>(text: &str, lang: &L, thr: f64) -> (Vec<BasicToken>, Vec<Occ>) {
    let tokens = real_tokens(text, lang);
    let occs = find_numbers(tokens.iter(), lang, thr).iter().map(Occ::of).collect();
    (tokens, occs)
}

/// Tokens of a text as harness tokens (same segmentation and annotation as the real path).
pub fn htoks_of_text<L: LangInterpreter>(text: &str, lang: &L) -> Vec<HTok> {
    real_tokens(text, lang)
        .iter()
        .enumerate()
        .map(|(i, t)| HTok { nan: t.nan, ..HTok::new(i, &t.text) })
        .collect()
}

/// Independent splice: replace each occurrence span by its text, keep everything else verbatim.
pub fn splice(tokens: &[String], occs: &[Occ]) -> String {
    let mut out = String::new();
    let mut i = 0;
    for o in occs {
        while i < o.start && i < tokens.len() {
            out.push_str(&tokens[i]);
            i += 1;
        }
        out.push_str(&o.text);
        i = o.end.max(i);
    }
    while i < tokens.len() {
        out.push_str(&tokens[i]);
        i += 1;
    }
    out
}

pub fn is_ws(s: &str) -> bool {
    s.chars().all(char::is_whitespace)
}
