//! Exploration alphabets per language (DESIGN §3): Σ_full (every known surface word) and Σ_cls
//! (class representatives).
use crate::langs::{L, ORDINARY};
use crate::ordspell;
use crate::spell::{self, Var};
use crate::vocab_lits;

fn push_words(out: &mut Vec<String>, text: &str) {
    for w in text.split(|c| c == ' ' || c == '-') {
        let w = w.to_lowercase();
        if !w.is_empty() && !out.contains(&w) {
            out.push(w);
        }
    }
}

pub fn lits(l: L) -> &'static [&'static str] {
    match l {
        L::En => vocab_lits::EN,
        L::Fr => vocab_lits::FR,
        L::Es => vocab_lits::ES,
        L::Pt => vocab_lits::PT,
        L::It => vocab_lits::IT,
        L::De => vocab_lits::DE,
        L::Nl => vocab_lits::NL,
    }
}

/// The interpreter's own linking ("insignificant") words.
pub fn linking_words(l: L) -> &'static [&'static str] {
    match l {
        L::En => vocab_lits::LINK_EN,
        L::Fr => vocab_lits::LINK_FR,
        L::Es => vocab_lits::LINK_ES,
        L::Pt => vocab_lits::LINK_PT,
        L::It => vocab_lits::LINK_IT,
        L::De => vocab_lits::LINK_DE,
        L::Nl => vocab_lits::LINK_NL,
    }
}

/// Every number-related surface word of the language (speller output for small numbers, scale
/// words, ordinals with inflections, variants, the interpreter's own literals), simplest first.
pub fn number_words(l: L) -> Vec<String> {
    let mut out: Vec<String> = vec![];
    let std = Var::default();
    for n in (0..=20).chain((30..=100).step_by(10)).chain([1000, 1_000_000, 2_000_000, 1_000_000_000, 2_000_000_000]) {
        push_words(&mut out, &spell::spell(l, n, Var { split: true, ..std }));
    }
    push_words(&mut out, l.conj());
    push_words(&mut out, l.sep());
    for (_, v) in spell::axes(l) {
        for n in (0..=100).chain((100..=1000).step_by(100)).chain([2000, 1_000_000, 2_000_000, 1_000_000_000, 3_000_000_000]) {
            push_words(&mut out, &spell::spell(l, n, Var { split: true, ..v }));
        }
    }
    // compound (unsplit) spellings: one-word hundreds, thousands and their combinations
    for n in [21u64, 22, 28, 101, 120, 200, 1100, 2000, 2021, 12_000, 20_000, 100_000, 200_000, 1_900] {
        for (_, v) in spell::axes(l) {
            if !v.split {
                push_words(&mut out, &spell::spell(l, n, v));
            }
        }
    }
    for n in (1..=20).chain((30..=100).step_by(10)).chain([1000, 1_000_000]) {
        if n > ordspell::max_rank(l) {
            continue;
        }
        for f in ordspell::ord_forms(l, n, Var { split: true, ..std }) {
            push_words(&mut out, &f.text);
        }
    }
    for w in lits(l) {
        if *w != "-" {
            push_words(&mut out, w);
        }
    }
    out
}

/// Word-like string literals found in the CURRENT source tree of the library's language modules that are in
/// none of the alphabets extracted from the pinned tree: a change that adds vocabulary (a new filler word, an
/// adverb list, a unit name) brings its own trigger words, and they are only to be found there.
/// (White-box alphabet construction; the oracles that use it do not depend on what the words mean.)
pub fn new_source_literals(l: L) -> Vec<String> {
    let dir = format!("{}/harness/repo/src/lang/{}", crate::infra::verif_root(), match l {
        L::En => "en",
        L::Fr => "fr",
        L::Es => "es",
        L::Pt => "pt",
        L::It => "it",
        L::De => "de",
        L::Nl => "nl",
    });
    let known: std::collections::HashSet<String> = sigma_full(l).into_iter().chain(lits(l).iter().map(|x| x.to_string())).collect();
    let re = regex::Regex::new(r#""((?:[^"\\]|\\.)*)""#).unwrap();
    let mut out: Vec<String> = vec![];
    let mut files: Vec<std::path::PathBuf> = std::fs::read_dir(&dir).map(|rd| rd.flatten().map(|e| e.path()).filter(|p| p.extension().map_or(false, |e| e == "rs")).collect()).unwrap_or_default();
    files.sort();
    // language-independent tables live in the shared files
    let src = format!("{}/harness/repo/src", crate::infra::verif_root());
    for f in ["word_to_digit.rs", "tokenizer.rs", "lang/mod.rs", "digit_string.rs"] {
        files.push(std::path::PathBuf::from(format!("{src}/{f}")));
    }
    for f in files {
        let Ok(text) = std::fs::read_to_string(&f) else { continue };
        // the unit tests of the module are not vocabulary, nor are block comments (documentation with examples)
        let code = text.split("#[cfg(test)]").next().unwrap_or("");
        let code = regex::Regex::new(r"(?s)/\*.*?\*/").unwrap().replace_all(code, "");
        let code: &str = &code;
        for line in code.lines() {
            let t = line.trim_start();
            if t.starts_with("//") {
                continue;
            }
            for c in re.captures_iter(line) {
                let w = c[1].to_string();
                let n = w.chars().count();
                if n >= 1 && n <= 24 && w.chars().all(|ch| ch.is_alphabetic() || ch == '\'' || ch == '-' || ch == ' ') && w.chars().any(|ch| ch.is_alphabetic()) && !known.contains(&w) && !known.contains(&w.to_lowercase()) && !out.contains(&w) {
                    // a longer ordinary word that merely begins with the literal (tables matched by prefix)
                    if n >= 3 && w.chars().all(|ch| ch.is_alphabetic()) {
                        out.push(format!("{w}qwfp"));
                    }
                    out.push(w);
                }
            }
        }
    }
    out
}

/// Symbol-like string literals (no letter, no digit; at most 3 characters once trimmed) of the CURRENT source of the
/// language's module and of the scanner that the pinned tree did not have: '&', '%', '+' ... brought by a change.
pub fn new_symbol_literals(l: L) -> Vec<String> {
    let root = crate::infra::verif_root();
    let code = match l {
        L::En => "en",
        L::Fr => "fr",
        L::Es => "es",
        L::Pt => "pt",
        L::It => "it",
        L::De => "de",
        L::Nl => "nl",
    };
    let known = [",", ".", "-", " ", "'", "", "\u{2019}", "/", "º", "ª", "ᵒˢ", "ᵃˢ", ".ᵉʳ", "1/", "{}", "{}{}", "{}.{}", "{},{}", "1/{}", "{}{}{}", ":", "(", ")", "[", "]", "{:?}", "\\n", "|", "_", "..", "...", "?", "!", ";", "\""];
    let re = regex::Regex::new(r#""((?:[^"\\]|\\.)*)""#).unwrap();
    let mut out: Vec<String> = vec![];
    let mut files: Vec<std::path::PathBuf> = vec![std::path::PathBuf::from(format!("{root}/harness/repo/src/word_to_digit.rs")), std::path::PathBuf::from(format!("{root}/harness/repo/src/tokenizer.rs"))];
    if let Ok(rd) = std::fs::read_dir(format!("{root}/harness/repo/src/lang/{code}")) {
        files.extend(rd.flatten().map(|e| e.path()).filter(|p| p.extension().map_or(false, |e| e == "rs")));
    }
    files.sort();
    for f in files {
        let Ok(text) = std::fs::read_to_string(&f) else { continue };
        let code_part = text.split("#[cfg(test)]").next().unwrap_or("");
        for line in code_part.lines() {
            let t = line.trim_start();
            if t.starts_with("//") || t.starts_with("#[") {
                continue;
            }
            for c in re.captures_iter(line) {
                let w = c[1].trim().to_string();
                let n = w.chars().count();
                if n >= 1 && n <= 3 && !w.chars().any(|ch| ch.is_alphanumeric() || ch == '\\' || ch == '{' || ch == '}') && !known.contains(&w.as_str()) && !out.contains(&w) {
                    out.push(w);
                }
            }
        }
    }
    out
}

/// Words from which very large numbers are built: nine, tens, hundred, one, the scale words of the class
/// alphabet and one representative per (value, cardinal/ordinal) among the vocabulary's scale words.
pub fn big_number_words(l: L, lang: &text2num::Language) -> Vec<String> {
    use crate::infra::guard;
    let c = cls(l);
    let mut big: Vec<String> = vec![c.unit2.clone(), c.tens.clone(), c.hundred.clone(), c.one.clone(), c.thousand.clone(), c.million.clone(), c.milliard.clone()];
    if l == L::It {
        big.extend(["mila", "milioni", "bilione", "bilioni"].iter().map(|x| x.to_string()));
    }
    if l == L::Pt {
        big.extend(["milionésimo", "bilionésimo", "bilionésima"].iter().map(|x| x.to_string()));
    }
    // one representative per (value, cardinal/ordinal) among the vocabulary's scale words
    let mut seen_keys: Vec<(String, bool)> = vec![];
    for w in number_words(l) {
        if let Ok(Ok(d)) = guard(|| text2num::text2digits(&w, lang)) {
            let digits: String = d.chars().take_while(|c| c.is_ascii_digit()).collect();
            let key = (digits.clone(), d.len() > digits.len());
            if digits.len() >= 4 && digits.starts_with('1') && digits[1..].bytes().all(|b| b == b'0') && !seen_keys.contains(&key) {
                seen_keys.push(key);
                if !big.contains(&w) {
                    big.push(w);
                }
            }
        }
    }
    big
}

/// Ambiguity triggers and the function words that sit next to numbers (articles, "half", "dozen", "pair").
pub fn function_words(l: L) -> &'static [&'static str] {
    match l {
        L::En => &["o", "a", "an", "the", "of", "no", "half", "dozen", "couple", "pair"],
        L::Fr => &["un", "le", "du", "l'", "numéro", "une", "la", "les", "de", "des", "demi", "douzaine", "paire"],
        L::Es => &["el", "la", "de", "medio", "media", "docena", "par"],
        L::Pt => &["uma", "o", "a", "de", "meio", "meia", "dúzia", "par"],
        L::It => &["il", "la", "di", "mezzo", "mezza", "dozzina", "paio"],
        L::De => &["eine", "einen", "einer", "der", "die", "das", "halb", "dutzend", "paar"],
        L::Nl => &["de", "het", "half", "dozijn", "paar"],
    }
}

/// Σ_full: number words + ordinary words + linking words + ambiguity triggers + punctuation.
pub fn sigma_full(l: L) -> Vec<String> {
    let mut out = number_words(l);
    for w in ORDINARY.iter().take(2) {
        out.push(w.to_string());
    }
    for w in l.linking() {
        if !out.iter().any(|x| x == w) {
            out.push(w.to_string());
        }
    }
    // every linking word of the interpreter (two-word entries too: a caller's token may hold them)
    for w in linking_words(l) {
        if !out.iter().any(|x| x == w) {
            out.push(w.to_string());
        }
    }
    // ambiguity triggers, plus the function words that sit next to numbers (articles, "half",
    // "dozen", "pair"): the words a vocabulary extension would most plausibly involve
    let extra: &[&str] = function_words(l);
    for w in extra {
        if !out.iter().any(|x| x == w) {
            out.push(w.to_string());
        }
    }
    // fragments of compound / hyphenated numbers, as a speech recogniser's spurious spaces produce them
    let fragments: &[&str] = match l {
        L::En => &["twenty-", "-one", "twenty-and"],
        L::Fr => &["vingt-et", "et-un", "vingt-"],
        L::De => &["einund", "undzwanzig", "zweiund", "hundertund"],
        L::Nl => &["eenen", "entwintig", "tweeën"],
        L::It => &["ventie", "milacento", "centoe"],
        _ => &[],
    };
    for w in fragments {
        if !out.iter().any(|x| x == w) {
            out.push(w.to_string());
        }
    }
    // hyphenated groups made of zero words and digits
    let c = cls(l);
    for w in [format!("{}-{}", c.zero, c.zero), format!("{}-{}", c.zero, c.unit), format!("{}-{}", c.unit, c.zero)] {
        if !out.contains(&w) {
            out.push(w);
        }
    }
    if l == L::En {
        out.push("o-o".to_string());
    }
    // words mixing letters with other characters, and punctuation tokens
    for p in ["qw'fp", "e-xyzzy", "b2", "xyzzy,", ",", ".", ";", "-", ". "] {
        out.push(p.to_string());
    }
    out
}

#[derive(Clone, Debug)]
pub struct Cls {
    pub zero: String,
    pub one: String,
    pub unit: String,
    pub unit2: String,
    pub teen: String,
    pub ten: String,
    pub tens: String,
    pub compound: Option<String>,
    pub hundred: String,
    pub thousand: String,
    pub million: String,
    pub milliard: String,
    pub conj: String,
    pub sep: String,
    pub small_ord: String,
    pub large_ord: String,
    pub linking: String,
    pub ordinary: String,
}

pub fn cls(l: L) -> Cls {
    let s = |n: u64| spell::spell(l, n, Var::default());
    let (compound, hundred, thousand, million, milliard, small_ord, large_ord): (Option<&str>, &str, &str, &str, &str, &str, &str) = match l {
        L::En => (Some("twenty-one"), "hundred", "thousand", "million", "billion", "third", "twentieth"),
        L::Fr => (Some("vingt-deux"), "cent", "mille", "million", "milliard", "troisième", "vingtième"),
        L::Es => (Some("veintiuno"), "cien", "mil", "millón", "millones", "tercero", "vigésimo"),
        L::Pt => (None, "cem", "mil", "milhão", "bilhões", "terceiro", "vigésimo"),
        L::It => (Some("ventuno"), "cento", "mille", "milione", "miliardi", "terzo", "ventesimo"),
        L::De => (Some("einundzwanzig"), "hundert", "tausend", "million", "milliarde", "dritte", "zwanzigste"),
        L::Nl => (Some("eenentwintig"), "honderd", "duizend", "miljoen", "miljard", "derde", "twintigste"),
    };
    Cls {
        zero: s(0),
        one: if l == L::De { "ein".into() } else { s(1) },
        unit: s(5),
        unit2: s(9),
        teen: s(13),
        ten: s(10),
        tens: s(20),
        compound: compound.map(|x| x.to_string()),
        hundred: hundred.into(),
        thousand: thousand.into(),
        million: million.into(),
        milliard: milliard.into(),
        conj: l.conj().into(),
        sep: l.sep().into(),
        small_ord: small_ord.into(),
        large_ord: large_ord.into(),
        linking: l.linking()[0].into(),
        ordinary: ORDINARY[0].into(),
    }
}

/// Σ_cls: one or two representatives per behavioural class, simplest first.
pub fn sigma_cls(l: L) -> Vec<String> {
    let c = cls(l);
    let mut v = vec![c.one, c.unit, c.tens, c.ordinary, c.zero, c.hundred, c.conj, ",".to_string(), c.ten, c.teen, c.thousand, c.linking, c.small_ord, c.sep, ".".to_string(), c.unit2, c.million, c.large_ord, c.milliard, " ".to_string(), "-".to_string()];
    if let Some(x) = c.compound {
        v.push(x);
    }
    // a unit glued to a scale word (hyphen group or compound word)
    let sc: Option<&str> = match l {
        L::En => Some("five-thousand"),
        L::Fr => Some("cinq-mille"),
        L::It => Some("cinquemila"),
        L::De => Some("fünftausend"),
        L::Nl => Some("vijfduizend"),
        _ => None,
    };
    if let Some(x) = sc {
        v.push(x.to_string());
    }
    let mut out: Vec<String> = vec![];
    for w in v {
        if !out.contains(&w) {
            out.push(w);
        }
    }
    out
}
