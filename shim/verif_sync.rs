//! Drop-in replacement for `std::sync` used ONLY in the scheduler-instrumented copy of the
//! library that C14 builds (the copy is generated under target/, /repo is never touched):
//! every synchronisation operation first reaches a scheduling point, and lock acquisitions never
//! block in the OS — they retry through `blocked` points — so a controlled scheduler owns every
//! interleaving of the code's own synchronisation, not just the callbacks.
#![allow(dead_code, clippy::all)]
pub use ::std::sync::*;

static HOOKS: ::std::sync::OnceLock<(fn(), fn())> = ::std::sync::OnceLock::new();

/// `yield_hook` is called before every synchronisation operation, `blocked_hook` when a lock
/// could not be taken (the caller retries after it returns).
pub fn set_hooks(yield_hook: fn(), blocked_hook: fn()) {
    let _ = HOOKS.set((yield_hook, blocked_hook));
}
#[inline]
fn y() {
    if let Some((f, _)) = HOOKS.get() {
        f()
    }
}
#[inline]
fn b() {
    match HOOKS.get() {
        Some((_, f)) => f(),
        None => ::std::thread::yield_now(),
    }
}

pub struct Mutex<T: ?Sized> {
    inner: ::std::sync::Mutex<T>,
}
/// Guard of the instrumented `Mutex`: it remembers its mutex so that the instrumented `Condvar`
/// can release and re-take it through scheduling points.
pub struct MutexGuard<'a, T: ?Sized + 'a> {
    lock: &'a Mutex<T>,
    g: Option<::std::sync::MutexGuard<'a, T>>,
}
impl<'a, T: ?Sized> ::std::ops::Deref for MutexGuard<'a, T> {
    type Target = T;
    fn deref(&self) -> &T {
        self.g.as_ref().unwrap()
    }
}
impl<'a, T: ?Sized> ::std::ops::DerefMut for MutexGuard<'a, T> {
    fn deref_mut(&mut self) -> &mut T {
        self.g.as_mut().unwrap()
    }
}
impl<'a, T: ?Sized + ::std::fmt::Debug> ::std::fmt::Debug for MutexGuard<'a, T> {
    fn fmt(&self, f: &mut ::std::fmt::Formatter<'_>) -> ::std::fmt::Result {
        (**self).fmt(f)
    }
}
impl<T> Mutex<T> {
    pub const fn new(t: T) -> Self {
        Self { inner: ::std::sync::Mutex::new(t) }
    }
    pub fn into_inner(self) -> LockResult<T> {
        self.inner.into_inner()
    }
}
impl<T: ?Sized> Mutex<T> {
    fn wrap<'a>(&'a self, g: ::std::sync::MutexGuard<'a, T>) -> MutexGuard<'a, T> {
        MutexGuard { lock: self, g: Some(g) }
    }
    pub fn lock(&self) -> LockResult<MutexGuard<'_, T>> {
        y();
        loop {
            match self.inner.try_lock() {
                Ok(g) => return Ok(self.wrap(g)),
                Err(TryLockError::Poisoned(p)) => return Err(PoisonError::new(self.wrap(p.into_inner()))),
                Err(TryLockError::WouldBlock) => b(),
            }
        }
    }
    pub fn try_lock(&self) -> TryLockResult<MutexGuard<'_, T>> {
        y();
        match self.inner.try_lock() {
            Ok(g) => Ok(self.wrap(g)),
            Err(TryLockError::Poisoned(p)) => Err(TryLockError::Poisoned(PoisonError::new(self.wrap(p.into_inner())))),
            Err(TryLockError::WouldBlock) => Err(TryLockError::WouldBlock),
        }
    }
    pub fn is_poisoned(&self) -> bool {
        self.inner.is_poisoned()
    }
    pub fn clear_poison(&self) {
        self.inner.clear_poison()
    }
    pub fn get_mut(&mut self) -> LockResult<&mut T> {
        self.inner.get_mut()
    }
}

/// Instrumented condition variable: waiting never blocks in the OS. A waiter registers, releases its
/// mutex, and goes through `blocked` points until a notification names it (FIFO, no spurious wake-ups);
/// then it re-takes the mutex through the instrumented `lock`. A waiter that is never notified keeps
/// reporting itself blocked, which the scheduler reports as a deadlock once nothing else can run.
pub struct Condvar {
    st: ::std::sync::Mutex<(u64, Vec<u64>, Vec<u64>)>, // (next ticket, waiting, woken)
}
impl Condvar {
    pub const fn new() -> Self {
        Self { st: ::std::sync::Mutex::new((0, Vec::new(), Vec::new())) }
    }
    fn park<'a, T: ?Sized>(&self, mut guard: MutexGuard<'a, T>, rounds: Option<u32>) -> (MutexGuard<'a, T>, bool) {
        y();
        let ticket = {
            let mut st = self.st.lock().unwrap_or_else(|p| p.into_inner());
            st.0 += 1;
            let t = st.0;
            st.1.push(t);
            t
        };
        let lock = guard.lock;
        drop(guard.g.take());
        let mut left = rounds;
        let mut notified = false;
        loop {
            {
                let mut st = self.st.lock().unwrap_or_else(|p| p.into_inner());
                if let Some(i) = st.2.iter().position(|&x| x == ticket) {
                    st.2.swap_remove(i);
                    notified = true;
                }
            }
            if notified {
                break;
            }
            if let Some(n) = left.as_mut() {
                if *n == 0 {
                    // timed wait gives up: leave the queue
                    let mut st = self.st.lock().unwrap_or_else(|p| p.into_inner());
                    st.1.retain(|&x| x != ticket);
                    break;
                }
                *n -= 1;
            }
            b();
        }
        let g = match lock.lock() {
            Ok(g) => g,
            Err(p) => p.into_inner(),
        };
        (g, notified)
    }
    pub fn wait<'a, T: ?Sized>(&self, guard: MutexGuard<'a, T>) -> LockResult<MutexGuard<'a, T>> {
        Ok(self.park(guard, None).0)
    }
    pub fn wait_while<'a, T: ?Sized, F: FnMut(&mut T) -> bool>(&self, mut guard: MutexGuard<'a, T>, mut condition: F) -> LockResult<MutexGuard<'a, T>> {
        while condition(&mut *guard) {
            guard = self.park(guard, None).0;
        }
        Ok(guard)
    }
    /// A timed wait gives the other threads three turns, then reports a time-out.
    pub fn wait_timeout<'a, T: ?Sized>(&self, guard: MutexGuard<'a, T>, _dur: ::std::time::Duration) -> LockResult<(MutexGuard<'a, T>, WaitTimeoutResult)> {
        let (g, notified) = self.park(guard, Some(3));
        Ok((g, timeout_result(!notified)))
    }
    pub fn notify_one(&self) {
        y();
        let mut st = self.st.lock().unwrap_or_else(|p| p.into_inner());
        if !st.1.is_empty() {
            let t = st.1.remove(0);
            st.2.push(t);
        }
    }
    pub fn notify_all(&self) {
        y();
        let mut st = self.st.lock().unwrap_or_else(|p| p.into_inner());
        let all: Vec<u64> = st.1.drain(..).collect();
        st.2.extend(all);
    }
}
impl Default for Condvar {
    fn default() -> Self {
        Self::new()
    }
}
impl ::std::fmt::Debug for Condvar {
    fn fmt(&self, f: &mut ::std::fmt::Formatter<'_>) -> ::std::fmt::Result {
        f.write_str("Condvar { .. }")
    }
}
/// `WaitTimeoutResult` has no public constructor: obtain one from a real, private condition variable.
fn timeout_result(timed_out: bool) -> WaitTimeoutResult {
    let m = ::std::sync::Mutex::new(());
    let cv = ::std::sync::Condvar::new();
    if timed_out {
        let g = m.lock().unwrap();
        cv.wait_timeout(g, ::std::time::Duration::from_nanos(1)).unwrap().1
    } else {
        // a notification sent while a helper waits: poll until the helper reports 'not timed out'
        let pair = ::std::sync::Arc::new((::std::sync::Mutex::new(false), ::std::sync::Condvar::new()));
        loop {
            let p2 = pair.clone();
            let h = ::std::thread::spawn(move || {
                let g = p2.0.lock().unwrap();
                let (_g, r) = p2.1.wait_timeout_while(g, ::std::time::Duration::from_secs(5), |ready| !*ready).unwrap();
                r
            });
            *pair.0.lock().unwrap() = true;
            pair.1.notify_all();
            let r = h.join().unwrap();
            if !r.timed_out() {
                return r;
            }
            *pair.0.lock().unwrap() = false;
        }
    }
}

impl<T: Default> Default for Mutex<T> {
    fn default() -> Self {
        Self::new(T::default())
    }
}
impl<T> From<T> for Mutex<T> {
    fn from(t: T) -> Self {
        Self::new(t)
    }
}
impl<T: ?Sized + ::std::fmt::Debug> ::std::fmt::Debug for Mutex<T> {
    fn fmt(&self, f: &mut ::std::fmt::Formatter<'_>) -> ::std::fmt::Result {
        self.inner.fmt(f)
    }
}

pub struct RwLock<T: ?Sized> {
    inner: ::std::sync::RwLock<T>,
}
impl<T> RwLock<T> {
    pub const fn new(t: T) -> Self {
        Self { inner: ::std::sync::RwLock::new(t) }
    }
    pub fn into_inner(self) -> LockResult<T> {
        self.inner.into_inner()
    }
}
impl<T: ?Sized> RwLock<T> {
    pub fn read(&self) -> LockResult<RwLockReadGuard<'_, T>> {
        y();
        loop {
            match self.inner.try_read() {
                Ok(g) => return Ok(g),
                Err(TryLockError::Poisoned(p)) => return Err(p),
                Err(TryLockError::WouldBlock) => b(),
            }
        }
    }
    pub fn write(&self) -> LockResult<RwLockWriteGuard<'_, T>> {
        y();
        loop {
            match self.inner.try_write() {
                Ok(g) => return Ok(g),
                Err(TryLockError::Poisoned(p)) => return Err(p),
                Err(TryLockError::WouldBlock) => b(),
            }
        }
    }
    pub fn try_read(&self) -> TryLockResult<RwLockReadGuard<'_, T>> {
        y();
        self.inner.try_read()
    }
    pub fn try_write(&self) -> TryLockResult<RwLockWriteGuard<'_, T>> {
        y();
        self.inner.try_write()
    }
    pub fn is_poisoned(&self) -> bool {
        self.inner.is_poisoned()
    }
    pub fn get_mut(&mut self) -> LockResult<&mut T> {
        self.inner.get_mut()
    }
}
impl<T: Default> Default for RwLock<T> {
    fn default() -> Self {
        Self::new(T::default())
    }
}
impl<T> From<T> for RwLock<T> {
    fn from(t: T) -> Self {
        Self::new(t)
    }
}
impl<T: ?Sized + ::std::fmt::Debug> ::std::fmt::Debug for RwLock<T> {
    fn fmt(&self, f: &mut ::std::fmt::Formatter<'_>) -> ::std::fmt::Result {
        self.inner.fmt(f)
    }
}

pub struct OnceLock<T> {
    inner: ::std::sync::OnceLock<T>,
}
impl<T> OnceLock<T> {
    pub const fn new() -> Self {
        Self { inner: ::std::sync::OnceLock::new() }
    }
    pub fn get(&self) -> Option<&T> {
        y();
        self.inner.get()
    }
    pub fn get_mut(&mut self) -> Option<&mut T> {
        self.inner.get_mut()
    }
    pub fn set(&self, value: T) -> Result<(), T> {
        y();
        self.inner.set(value)
    }
    pub fn get_or_init<F: FnOnce() -> T>(&self, f: F) -> &T {
        y();
        self.inner.get_or_init(f)
    }
    pub fn into_inner(self) -> Option<T> {
        self.inner.into_inner()
    }
    pub fn take(&mut self) -> Option<T> {
        self.inner.take()
    }
}
impl<T> Default for OnceLock<T> {
    fn default() -> Self {
        Self::new()
    }
}
impl<T: ::std::fmt::Debug> ::std::fmt::Debug for OnceLock<T> {
    fn fmt(&self, f: &mut ::std::fmt::Formatter<'_>) -> ::std::fmt::Result {
        self.inner.fmt(f)
    }
}

pub struct LazyLock<T, F = fn() -> T> {
    inner: ::std::sync::LazyLock<T, F>,
}
impl<T, F: FnOnce() -> T> LazyLock<T, F> {
    pub const fn new(f: F) -> Self {
        Self { inner: ::std::sync::LazyLock::new(f) }
    }
    pub fn force(this: &Self) -> &T {
        y();
        ::std::sync::LazyLock::force(&this.inner)
    }
}
impl<T, F: FnOnce() -> T> ::std::ops::Deref for LazyLock<T, F> {
    type Target = T;
    fn deref(&self) -> &T {
        y();
        &*self.inner
    }
}

pub mod atomic {
    pub use ::std::sync::atomic::{compiler_fence, fence, Ordering};
    macro_rules! int_atomic {
        ($name:ident, $t:ty) => {
            #[derive(Debug, Default)]
            pub struct $name {
                inner: ::std::sync::atomic::$name,
            }
            impl $name {
                pub const fn new(v: $t) -> Self {
                    Self { inner: ::std::sync::atomic::$name::new(v) }
                }
                pub fn load(&self, o: Ordering) -> $t {
                    super::y();
                    self.inner.load(o)
                }
                pub fn store(&self, v: $t, o: Ordering) {
                    super::y();
                    self.inner.store(v, o)
                }
                pub fn swap(&self, v: $t, o: Ordering) -> $t {
                    super::y();
                    self.inner.swap(v, o)
                }
                pub fn compare_exchange(&self, c: $t, n: $t, s: Ordering, f: Ordering) -> Result<$t, $t> {
                    super::y();
                    self.inner.compare_exchange(c, n, s, f)
                }
                pub fn compare_exchange_weak(&self, c: $t, n: $t, s: Ordering, f: Ordering) -> Result<$t, $t> {
                    super::y();
                    self.inner.compare_exchange(c, n, s, f)
                }
                pub fn fetch_add(&self, v: $t, o: Ordering) -> $t {
                    super::y();
                    self.inner.fetch_add(v, o)
                }
                pub fn fetch_sub(&self, v: $t, o: Ordering) -> $t {
                    super::y();
                    self.inner.fetch_sub(v, o)
                }
                pub fn fetch_and(&self, v: $t, o: Ordering) -> $t {
                    super::y();
                    self.inner.fetch_and(v, o)
                }
                pub fn fetch_or(&self, v: $t, o: Ordering) -> $t {
                    super::y();
                    self.inner.fetch_or(v, o)
                }
                pub fn fetch_xor(&self, v: $t, o: Ordering) -> $t {
                    super::y();
                    self.inner.fetch_xor(v, o)
                }
                pub fn fetch_max(&self, v: $t, o: Ordering) -> $t {
                    super::y();
                    self.inner.fetch_max(v, o)
                }
                pub fn fetch_min(&self, v: $t, o: Ordering) -> $t {
                    super::y();
                    self.inner.fetch_min(v, o)
                }
                pub fn fetch_update<F: FnMut($t) -> Option<$t>>(&self, s: Ordering, f: Ordering, g: F) -> Result<$t, $t> {
                    super::y();
                    self.inner.fetch_update(s, f, g)
                }
                pub fn get_mut(&mut self) -> &mut $t {
                    self.inner.get_mut()
                }
                pub fn into_inner(self) -> $t {
                    self.inner.into_inner()
                }
            }
            impl From<$t> for $name {
                fn from(v: $t) -> Self {
                    Self::new(v)
                }
            }
        };
    }
    int_atomic!(AtomicUsize, usize);
    int_atomic!(AtomicIsize, isize);
    int_atomic!(AtomicU64, u64);
    int_atomic!(AtomicI64, i64);
    int_atomic!(AtomicU32, u32);
    int_atomic!(AtomicI32, i32);
    int_atomic!(AtomicU16, u16);
    int_atomic!(AtomicU8, u8);

    #[derive(Debug, Default)]
    pub struct AtomicBool {
        inner: ::std::sync::atomic::AtomicBool,
    }
    impl AtomicBool {
        pub const fn new(v: bool) -> Self {
            Self { inner: ::std::sync::atomic::AtomicBool::new(v) }
        }
        pub fn load(&self, o: Ordering) -> bool {
            super::y();
            self.inner.load(o)
        }
        pub fn store(&self, v: bool, o: Ordering) {
            super::y();
            self.inner.store(v, o)
        }
        pub fn swap(&self, v: bool, o: Ordering) -> bool {
            super::y();
            self.inner.swap(v, o)
        }
        pub fn compare_exchange(&self, c: bool, n: bool, s: Ordering, f: Ordering) -> Result<bool, bool> {
            super::y();
            self.inner.compare_exchange(c, n, s, f)
        }
        pub fn compare_exchange_weak(&self, c: bool, n: bool, s: Ordering, f: Ordering) -> Result<bool, bool> {
            super::y();
            self.inner.compare_exchange(c, n, s, f)
        }
        pub fn fetch_and(&self, v: bool, o: Ordering) -> bool {
            super::y();
            self.inner.fetch_and(v, o)
        }
        pub fn fetch_or(&self, v: bool, o: Ordering) -> bool {
            super::y();
            self.inner.fetch_or(v, o)
        }
        pub fn fetch_xor(&self, v: bool, o: Ordering) -> bool {
            super::y();
            self.inner.fetch_xor(v, o)
        }
        pub fn get_mut(&mut self) -> &mut bool {
            self.inner.get_mut()
        }
        pub fn into_inner(self) -> bool {
            self.inner.into_inner()
        }
    }
}
