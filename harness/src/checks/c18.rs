//! C18 — English 'o' is read as zero only next to another number word (E-SEQ against the rule of the statement).
use crate::explore;
use crate::infra::*;
use crate::stream;
use serde_json::json;
use text2num::verif::tokenize;
use text2num::{replace_numbers_in_text, text2digits, Language};

const T: [f64; 10] = [f64::NEG_INFINITY, -1.0, 0.0, 1.0, 5.0, 9.0, 10.0, 1000.0, f64::INFINITY, f64::NAN];

fn is_number_word(lang: &Language, w: &str) -> bool {
    matches!(guard(|| text2digits(w, lang)), Ok(Ok(_)))
}

/// Build s' : every token `o` is replaced by "zero" (number neighbour) or by an ordinary word.
/// Returns None when the text has no 'o' token.
fn model_text(lang: &Language, s: &str) -> Option<String> {
    let toks: Vec<String> = tokenize(s).map(|t| t.text).collect();
    let sig: Vec<usize> = (0..toks.len()).filter(|&i| !stream::is_ws(&toks[i])).collect();
    let mut out = toks.clone();
    let mut any = false;
    for (j, &i) in sig.iter().enumerate() {
        if toks[i].to_lowercase() != "o" {
            continue;
        }
        any = true;
        let prev = if j > 0 { Some(&toks[sig[j - 1]]) } else { None };
        let next = sig.get(j + 1).map(|&k| &toks[k]);
        let near_number = prev.map_or(false, |p| is_number_word(lang, p)) || next.map_or(false, |n| is_number_word(lang, n));
        out[i] = if near_number { "zero".to_string() } else { "qwfp".to_string() };
    }
    if any {
        Some(out.concat())
    } else {
        None
    }
}

fn one_text(ctx: &Ctx, acc: &mut Acc, lang: &Language, s: &str) {
    acc.states += 1;
    let Ok(Some(s2)) = guard(|| model_text(lang, s)) else { return };
    acc.nontrivial += 1;
    for &t in &T {
        acc.traces += 1;
        acc.transitions += 2;
        let r = guard(|| {
            let (tk, occ) = stream::find_in_text(s, lang, t);
            let (_, occ2) = stream::find_in_text(&s2, lang, t);
            let out = replace_numbers_in_text(s, lang, t);
            (tk.iter().map(|x| x.text.clone()).collect::<Vec<_>>(), occ, occ2, out)
        });
        let Ok((toks, occ, occ2, out)) = r else { continue };
        if t == 10.0 {
            acc.outcome(&occ);
        }
        if occ != occ2 {
            ctx.report(acc, Violation {
                lang: "en".into(),
                entry: "find_text".into(),
                input: s.to_string(),
                threshold: Some(t),
                clause: "'o' next to a number word behaves exactly like 'zero', any other 'o' exactly like an ordinary word".into(),
                expected: format!("as for {s2:?}: {}", stream::show_occs(&occ2)),
                observed: stream::show_occs(&occ),
            });
            continue;
        }
        let want = stream::splice(&toks, &occ2);
        if out != want {
            ctx.report(acc, Violation { lang: "en".into(), entry: "replace_text".into(), input: s.to_string(), threshold: Some(t), clause: "rewrite(s) = rewrite(s with 'o' replaced per the rule), mapped back".into(), expected: want, observed: out });
        }
    }
}

pub fn run(tier: Tier) -> i32 {
    let ctx = Ctx::new("C18", tier);
    let k = tier.pick(5usize, 6);
    let lang = Language::english();
    let alphabet: Vec<String> = ["o", "five", "twenty", "xyzzy", ",", "O", "zero", "point", "hundred", ".", "plus", "-", "o'clock", "third", "and", "twenty-one", "thousand"].iter().map(|s| s.to_string()).collect();
    let alphabet: Vec<String> = alphabet.into_iter().take(tier.pick(17, 14)).collect();
    // inflected neighbours (plural scale word, plural unit, plural ordinal, an ordinal scale word): a smaller alphabet, depth 4
    let inflected: Vec<String> = ["o", "five", "xyzzy", ",", "thousands", "fives", "thirds", "hundredth", "and"].iter().map(|s| s.to_string()).collect();
    let acc_infl = explore::all_sequences2(&inflected, 4, |syms, acc| {
        if syms.iter().any(|s| *s == "o") {
            one_text(&ctx, acc, &lang, &syms.join(" "));
        }
    });
    // word-like literals of the current English module that no alphabet knows, around an 'o'
    let news: Vec<String> = crate::vocab::new_source_literals(crate::langs::L::En).into_iter().filter(|w| !w.contains(' ') && w.chars().all(|c| c.is_alphabetic())).collect();
    let mut acc_new = Acc::new();
    for w in &news {
        let a: Vec<String> = vec!["o".to_string(), "five".to_string(), "xyzzy".to_string(), ",".to_string(), w.clone()];
        acc_new.merge(explore::all_sequences2(&a, 4, |syms, acc| {
            if syms.iter().any(|s| *s == "o") && syms.iter().any(|s| s == w) {
                one_text(&ctx, acc, &lang, &syms.join(" "));
            }
        }));
    }
    // no number word is special as a neighbour: every number-related English word (units, teens, tens, scale words,
    // ordinals and their plurals, aliases, the interpreter's own literals) around an 'o', all sequences <= 4
    let every: Vec<String> = crate::vocab::number_words(crate::langs::L::En).into_iter().filter(|w| w != "o" && !w.contains(' ')).collect();
    for w in &every {
        let a: Vec<String> = vec!["o".to_string(), w.clone(), "xyzzy".to_string(), ",".to_string()];
        acc_new.merge(explore::all_sequences2(&a, 4, |syms, acc| {
            if syms.iter().any(|s| *s == "o") && syms.iter().any(|s| s == w) {
                one_text(&ctx, acc, &lang, &syms.join(" "));
            }
        }));
    }
    // no position is special: the same short contexts behind a long run of ordinary words, so that the 'o' sits just
    // before / at / after token positions 2^8, 2^16, 2^17 (a blank counts as a token)
    let far_words: Vec<usize> = tier.pick(vec![127, 128, 32767, 32768, 65536], vec![127, 128, 129, 16384, 32767, 32768, 32769, 65535, 65536, 65537, 131072]);
    let far_alpha: Vec<String> = ["o", "five", "xyzzy"].iter().map(|s| s.to_string()).collect();
    for &n in &far_words {
        let prefix = "word ".repeat(n);
        acc_new.merge(explore::all_sequences2(&far_alpha, 3, |syms, acc| {
            if syms.iter().any(|s| *s == "o") {
                one_text(&ctx, acc, &lang, &format!("{prefix}{}", syms.join(" ")));
            }
        }));
    }
    let mut acc = explore::all_sequences2(&alphabet, k, |syms, acc| {
        if !syms.iter().any(|s| s.eq_ignore_ascii_case("o")) {
            return;
        }
        // rendering 1: single spaces everywhere
        one_text(&ctx, acc, &lang, &syms.join(" "));
        // rendering 1b: no-break spaces instead of spaces
        one_text(&ctx, acc, &lang, &syms.join("\u{a0}"));
        // rendering 2: punctuation glued to the previous word, no space before it
        let mut glued = String::new();
        for (i, s) in syms.iter().enumerate() {
            let punct = !s.chars().any(|c| c.is_alphanumeric());
            if i > 0 && !punct {
                glued.push(' ');
            }
            glued.push_str(s);
        }
        if glued != syms.join(" ") {
            one_text(&ctx, acc, &lang, &glued);
        }
        // rendering 3: no spaces at all around punctuation
        let mut tight = String::new();
        for (i, s) in syms.iter().enumerate() {
            let punct = !s.chars().any(|c| c.is_alphanumeric());
            let prev_punct = i > 0 && !syms[i - 1].chars().any(|c| c.is_alphanumeric());
            if i > 0 && !punct && !prev_punct {
                tight.push(' ');
            }
            tight.push_str(s);
        }
        if tight != glued && tight != syms.join(" ") {
            one_text(&ctx, acc, &lang, &tight);
        }
    });
    let mut acc = acc;
    acc.sample(json!({"text": "twenty o five, o xyzzy", "model": "twenty zero five, qwfp xyzzy"}));
    let cov = json!({
        "exhaustive": true,
        "rule": "every English token sequence of length <= k over the alphabet that contains an 'o', in four renderings (spaces everywhere, no-break spaces everywhere, punctuation glued to the previous word, no spaces around punctuation), at every threshold; compared with the same text where each 'o' is replaced by 'zero' or by an ordinary word according to the statement's neighbour rule; non-trivial = texts with at least one 'o' token",
        "bounds": {"alphabet": alphabet, "depth": k, "inflected_neighbours_alphabet": inflected, "inflected_depth": 4, "every_number_word_stage": {"words": every.len(), "alphabet": "o, the word, xyzzy, comma", "depth": 4}, "far_position_stage": {"ordinary_words_in_front": far_words, "alphabet": far_alpha, "depth": 3}},
        "thresholds": T.iter().map(|t| thr_name(*t)).collect::<Vec<_>>(),
    });
    acc.merge(acc_infl);
    acc.merge(acc_new);
    ctx.finish(acc, cov, vec!["a neighbour 'is a number word' iff it validates as a number on its own".into()])
}
