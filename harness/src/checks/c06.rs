//! C06 — every reported occurrence is well-formed and self-consistent (E-SEQ).
use crate::explore;
use crate::infra::*;
use crate::langs::{self, L};
use crate::model::numeral;
use crate::stream::{self, HTok, Occ};
use crate::vocab;
use serde_json::json;

pub const T: [f64; 10] = [f64::NEG_INFINITY, -1.0, 0.0, 1.0, 5.0, 9.0, 10.0, 1000.0, f64::INFINITY, f64::NAN];

pub fn upper(s: &str) -> String {
    s.to_uppercase()
}
pub fn title(s: &str) -> String {
    let mut c = s.chars();
    match c.next() {
        Some(f) => f.to_uppercase().collect::<String>() + c.as_str(),
        None => String::new(),
    }
}

fn check_occs(ctx: &Ctx, acc: &mut Acc, l: L, toks: &[HTok], occs: &[Occ], thr: f64, entry: &str) {
    let mut prev_end = 0usize;
    for (k, o) in occs.iter().enumerate() {
        acc.traces += 1;
        let mut bad: Option<(&str, String, String)> = None;
        if !(o.start < o.end && o.end <= toks.len()) {
            bad = Some(("span inside the stream", format!("0 <= start < end <= {}", toks.len()), format!("[{}..{})", o.start, o.end)));
        } else if k > 0 && o.start < prev_end {
            bad = Some(("spans strictly increasing and disjoint", format!("start >= {prev_end}"), format!("[{}..{})", o.start, o.end)));
        } else if !toks[o.start].text.chars().any(|c| c.is_alphanumeric()) || !toks[o.end - 1].text.chars().any(|c| c.is_alphanumeric()) {
            bad = Some(("span begins and ends on a word token", "word tokens at both ends".into(), format!("{:?} .. {:?}", toks[o.start].text, toks[o.end - 1].text)));
        } else {
            match numeral::read(l, &o.text) {
                None => bad = Some(("text is a well-formed numeral", "digits[mark digits][marker]".into(), o.text.clone())),
                Some(n) => {
                    if n.value.to_bits() != o.value_bits && !(n.value == o.value()) {
                        bad = Some(("value equals the numeric reading of the text", format!("{}", n.value), format!("{}", o.value())));
                    } else if n.marker.is_some() != o.is_ordinal {
                        bad = Some(("flagged ordinal exactly when the text carries an ordinal marker", format!("is_ordinal={}", n.marker.is_some()), format!("text={:?} is_ordinal={}", o.text, o.is_ordinal)));
                    }
                }
            }
        }
        prev_end = o.end.max(prev_end);
        if let Some((clause, expected, observed)) = bad {
            ctx.report(acc, Violation {
                lang: l.code().into(),
                entry: entry.into(),
                input: serde_json::to_string(&toks.iter().map(|t| t.text.as_str()).collect::<Vec<_>>()).unwrap(),
                threshold: Some(thr),
                clause: clause.into(),
                expected,
                observed: format!("{observed} in {}", stream::show_occs(occs)),
            });
        }
    }
}

fn one_stream(ctx: &Ctx, acc: &mut Acc, l: L, lang: &text2num::Language, syms: &[&str], cased: bool) {
    acc.states += 1;
    let variants: usize = if cased { 3 } else { 1 };
    for cv in 0..variants {
        let words: Vec<String> = syms
            .iter()
            .map(|s| match cv {
                0 => s.to_string(),
                1 => upper(s),
                _ => title(s),
            })
            .collect();
        let toks: Vec<HTok> = words.iter().enumerate().map(|(i, w)| HTok::new(i, w)).collect();
        // all thresholds on the lower-case rendering (vocabulary-wide streams of 3 words: 0 and 10 only)
        let thrs: &[f64] = if cv == 0 && (cased || syms.len() != 3) { &T } else { &[0.0, 10.0] };
        for &t in thrs {
            acc.transitions += 2 * toks.len() as u64;
            match guard(|| (stream::find(&toks, lang, t), stream::find_iter(&toks, lang, t))) {
                Ok((a, b)) => {
                    if cv == 0 && t == 0.0 {
                        acc.outcome(&a);
                        if !a.is_empty() {
                            acc.nontrivial += 1;
                        }
                    }
                    check_occs(ctx, acc, l, &toks, &a, t, "find_tokens");
                    if a != b {
                        check_occs(ctx, acc, l, &toks, &b, t, "find_tokens_iter");
                    }
                }
                Err(p) => ctx.report(acc, Violation {
                    lang: l.code().into(),
                    entry: "find_tokens".into(),
                    input: serde_json::to_string(&words).unwrap(),
                    threshold: Some(t),
                    clause: "search returns".into(),
                    expected: "a list".into(),
                    observed: p,
                }),
            }
        }
    }
}

/// Streams given as ready-made harness tokens (hinted tokens, or the real tokens of a text with the
/// language's own annotation): thresholds 0 and 10, both search entry points.
fn one_token_list(ctx: &Ctx, acc: &mut Acc, l: L, lang: &text2num::Language, toks: &[HTok]) {
    acc.states += 1;
    for t in [0.0, 10.0] {
        acc.transitions += 2 * toks.len() as u64;
        if let Ok((a, b)) = guard(|| (stream::find(toks, lang, t), stream::find_iter(toks, lang, t))) {
            if t == 0.0 && !a.is_empty() {
                acc.nontrivial += 1;
            }
            check_occs(ctx, acc, l, toks, &a, t, "find_tokens");
            if a != b {
                check_occs(ctx, acc, l, toks, &b, t, "find_tokens_iter");
            }
        }
    }
}

pub fn run(tier: Tier) -> i32 {
    let ctx = Ctx::new("C06", tier);
    let (kf, kc, kdeep) = tier.pick((2usize, 4usize, 0usize), (3, 5, 6));
    let rmax = tier.pick(60usize, 300usize);
    let (kh, kt) = tier.pick((3usize, 4usize), (4, 5));
    let kbig = tier.pick(5usize, 6usize);
    let mut total = Acc::new();
    let mut sizes = vec![];
    for l in langs::ALL {
        let lang = l.facade();
        let mut full = vocab::sigma_full(l);
        full.push(" ".to_string());
        let cls = vocab::sigma_cls(l);
        sizes.push(json!({"lang": l.code(), "sigma_full": full.len(), "sigma_cls": cls.len()}));
        let a = explore::all_sequences(&full, kf, |syms, acc| one_stream(&ctx, acc, l, &lang, syms, false));
        total.merge(a);
        let b = explore::all_sequences2(&cls, kc, |syms, acc| one_stream(&ctx, acc, l, &lang, syms, true));
        total.merge(b);
        if kdeep > 0 {
            // deep: core of the class alphabet, length exactly kdeep is covered by 1..=kdeep
            let core: Vec<String> = cls.iter().take(10).cloned().collect();
            let c = explore::all_sequences2(&core, kdeep, |syms, acc| {
                if syms.len() > kc {
                    one_stream(&ctx, acc, l, &lang, syms, false)
                }
            });
            total.merge(c);
        }
        // hinted streams: class words plain, '~' (unrelated to the predecessor) or '!' (not a number part)
        let c = vocab::cls(l);
        let base: Vec<String> = vec![c.one.clone(), c.tens.clone(), c.unit.clone(), c.ordinary.clone(), c.hundred.clone(), c.sep.clone(), c.small_ord.clone(), c.conj.clone(), c.linking.clone(), ",".to_string()];
        let mut deco: Vec<String> = base.clone();
        deco.extend(base.iter().map(|w| format!("~{w}")));
        deco.extend(base.iter().map(|w| format!("!{w}")));
        total.merge(explore::all_sequences2(&deco, kh, |syms, acc| {
            if syms.iter().any(|s| s.len() > 1 && (s.starts_with('~') || s.starts_with('!'))) {
                let toks: Vec<HTok> = syms.iter().enumerate().map(|(i, w)| HTok::decorated(i, w)).collect();
                one_token_list(&ctx, acc, l, &lang, &toks)
            }
        }));
        // texts: words joined by one space, tokenised and annotated by the library itself (whitespace tokens,
        // the language's own ambiguity flags)
        let mut tw: Vec<String> = base.clone();
        let amb: &[&str] = match l {
            L::En => &["o"],
            L::Fr => &["neuf", "un", "le"],
            _ => &[],
        };
        for w in amb {
            if !tw.iter().any(|x| x == w) {
                tw.insert(0, w.to_string());
            }
        }
        total.merge(explore::all_sequences2(&tw, kt, |syms, acc| {
            let toks = stream::htoks_of_text(&syms.join(" "), &lang);
            one_token_list(&ctx, acc, l, &lang, &toks)
        }));
        // big numbers: nine, tens, hundred, one and every scale word of the vocabulary (cardinal and ordinal), so that
        // numerals of 17 and more digits — beyond what a float can hold exactly — are reached
        let mut big: Vec<String> = vocab::big_number_words(l, &lang);
        sizes.push(json!({"lang": l.code(), "big_number_alphabet": big}));
        big.push(c.small_ord.clone());
        big.push(c.large_ord.clone());
        let (nine, third) = (c.unit2.clone(), c.small_ord.clone());
        total.merge(explore::all_sequences2(&big, kbig, |syms, acc| {
            // the deepest level of the thorough tier only over the first 12 symbols
            if syms.len() >= 3 && (syms.len() < 6 || syms.iter().all(|s| big.iter().position(|b| b == s).map_or(false, |i| i < 12))) {
                let toks: Vec<HTok> = syms.iter().enumerate().map(|(i, w)| HTok::new(i, w)).collect();
                one_token_list(&ctx, acc, l, &lang, &toks);
                // exact digits: when the stream is one number and so is the stream without its last word, a final
                // 'nine' / 'third' that lands in a free units position changes that digit and nothing else
                let last = *syms.last().unwrap();
                let d_last = if last == nine { Some('9') } else if last == third { Some('3') } else { None };
                if let Some(dl) = d_last {
                    if let Ok((s_occ, a_occ)) = guard(|| (stream::find(&toks, &lang, 0.0), stream::find(&toks[..toks.len() - 1], &lang, 0.0))) {
                        if s_occ.len() == 1 && a_occ.len() == 1 && s_occ[0].start == 0 && s_occ[0].end == toks.len() && a_occ[0].start == 0 && a_occ[0].end == toks.len() - 1 {
                            let digits = |t: &str| -> String { t.chars().take_while(|c| c.is_ascii_digit()).collect() };
                            let (da, ds) = (digits(&a_occ[0].text), digits(&s_occ[0].text));
                            if da.ends_with('0') && da.len() == ds.len() && !a_occ[0].text.contains(l.mark()) {
                                acc.traces += 1;
                                let want = format!("{}{dl}", &da[..da.len() - 1]);
                                if ds != want {
                                    ctx.report(acc, Violation {
                                        lang: l.code().into(),
                                        entry: "find_tokens".into(),
                                        input: serde_json::to_string(&syms).unwrap(),
                                        threshold: Some(0.0),
                                        clause: "exact digits are kept even when the value exceeds float precision".into(),
                                        expected: format!("digits {want} (those of the stream without its last word, {da}, with the units digit set)"),
                                        observed: s_occ[0].show(),
                                    });
                                }
                            }
                        }
                    }
                }
            }
        }));
        // long streams: every pattern of <= 2 class symbols repeated r times, every r up to the bound
        total.merge(explore::all_repetitions(&cls, 2, 2..=rmax, |syms, acc| one_stream(&ctx, acc, l, &lang, syms, false)));
        total.sample(json!({"lang": l.code(), "stream": cls.iter().take(4).collect::<Vec<_>>()}));
    }
    let cov = json!({
        "exhaustive": true,
        "rule": "every token stream of length <= k over the alphabet, through find_numbers and find_numbers_iter, at every threshold of T; every reported occurrence is checked; non-trivial = streams with at least one occurrence at threshold 0",
        "bounds": {"sigma_full_depth": kf, "sigma_cls_depth": kc, "core10_depth": kdeep, "big_number_depth": kbig, "hinted_streams": {"words": 10, "decorations": 3, "depth": kh}, "annotated_texts": {"words": "10 class words + the language's ambiguous words", "depth": kt}, "long_streams": {"pattern_depth": 2, "repetitions_up_to": rmax}, "case_renderings_on_cls": ["lower", "UPPER", "Title"]},
        "thresholds": T.iter().map(|t| thr_name(*t)).collect::<Vec<_>>(),
        "alphabets": sizes,
    });
    ctx.finish(total, cov, vec!["numeral grammar and ordinal-marker table: harness/src/model/numeral.rs and langs.rs".into()])
}
