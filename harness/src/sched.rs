//! E-SCHED: deviation-bounded exhaustive scheduler over real OS threads.
//! Exactly one worker runs at a time; workers hand control back at *scheduling points*
//! (call boundaries and every callback the library makes into harness-owned code).
use std::cell::RefCell;
use std::sync::{Arc, Condvar, Mutex};
use std::time::{Duration, Instant};

struct St {
    /// 0 = running, 1 = waiting at a point, 2 = done, 3 = waiting because a lock could not be taken
    status: Vec<u8>,
    turn: Option<usize>,
    free_run: bool,
    /// the execution was given up (deadlock, infeasible schedule): threads still inside it unwind at their
    /// next scheduling point instead of spinning or waiting for ever
    aborted: bool,
}

/// payload of the unwinding of an abandoned worker
struct Abandoned;

pub struct Sched {
    m: Mutex<St>,
    cv: Condvar,
}

thread_local! {
    static GATE: RefCell<Option<(Arc<Sched>, usize)>> = const { RefCell::new(None) };
}

/// A scheduling point: called by harness-owned callbacks running inside library calls.
pub fn point() {
    let g = GATE.with(|g| g.borrow().clone());
    if let Some((s, tid)) = g {
        s.point(tid);
    }
}

/// Reported by instrumented lock wrappers: the calling thread cannot take a lock right now. It waits
/// until the scheduler lets it retry, which it does only after another thread has run.
pub fn blocked() {
    let g = GATE.with(|g| g.borrow().clone());
    match g {
        Some((s, tid)) => s.wait_turn(tid, 3),
        None => std::thread::yield_now(),
    }
}

impl Sched {
    fn new(n: usize) -> Arc<Sched> {
        Arc::new(Sched { m: Mutex::new(St { status: vec![0; n], turn: None, free_run: false, aborted: false }), cv: Condvar::new() })
    }
    fn point(&self, tid: usize) {
        self.wait_turn(tid, 1)
    }
    fn wait_turn(&self, tid: usize, as_status: u8) {
        let mut st = self.m.lock().unwrap_or_else(|e| e.into_inner());
        if st.free_run {
            let aborted = st.aborted;
            drop(st);
            if aborted && as_status == 3 {
                // a blocked thread of an abandoned execution would retry for ever: unwind it
                std::panic::resume_unwind(Box::new(Abandoned));
            }
            if as_status == 3 {
                std::thread::yield_now();
            }
            return;
        }
        st.status[tid] = as_status;
        self.cv.notify_all();
        while st.turn != Some(tid) && !st.free_run {
            st = self.cv.wait(st).unwrap_or_else(|e| e.into_inner());
        }
        if st.free_run && st.aborted && as_status == 3 {
            drop(st);
            std::panic::resume_unwind(Box::new(Abandoned));
        }
        st.status[tid] = 0;
        st.turn = None;
        self.cv.notify_all();
    }
    fn done(&self, tid: usize) {
        let mut st = self.m.lock().unwrap_or_else(|e| e.into_inner());
        st.status[tid] = 2;
        self.cv.notify_all();
    }
}

#[derive(Clone, Debug)]
pub struct Point {
    /// canonical order: the running thread first if still enabled, then ascending ids
    pub enabled: Vec<usize>,
    pub running_still_enabled: bool,
}

pub struct Execution<R> {
    pub points: Vec<Point>,
    pub choices: Vec<usize>,
    pub results: Vec<R>,
    pub infeasible: bool,
    /// some thread blocked on a resource the scheduler does not own and was left loose
    pub overlapped: bool,
    /// every live thread was waiting for a lock (instrumented build only)
    pub deadlocked: bool,
    /// a recorded prefix could not be replayed (behaviour depends on an earlier execution)
    pub diverged: bool,
}

/// One thread body: runs with the gate installed; must call `point()` (directly or through callbacks).
pub type Body<R> = Arc<dyn Fn() -> R + Send + Sync>;

const STEP_TIMEOUT: Duration = Duration::from_millis(4000);
/// a thread that does not reach its next point within this time is blocked on something the
/// scheduler does not own (e.g. a lock held by a preempted thread)
const BLOCK_TIMEOUT: Duration = Duration::from_millis(100);

/// Run the program once: follow `prefix` (indices into each point's `enabled`), then choice 0.
///
/// A scheduled thread that blocks (does not reach a point within BLOCK_TIMEOUT) is left *loose*:
/// the controller schedules another waiting thread, exactly as an OS scheduler would; the loose
/// thread rejoins the controlled set at its next point. While a thread is loose two threads may
/// overlap for the rest of the loose thread's segment; such executions are flagged `overlapped`
/// (still real executions of the real code, but not replayable bit for bit).
pub fn run_once<R: Send + 'static + Default>(bodies: &[Body<R>], prefix: &[usize]) -> Execution<R> {
    let n = bodies.len();
    let s = Sched::new(n);
    let mut handles = vec![];
    for (tid, b) in bodies.iter().enumerate() {
        let s2 = s.clone();
        let b = b.clone();
        handles.push(std::thread::spawn(move || {
            GATE.with(|g| *g.borrow_mut() = Some((s2.clone(), tid)));
            s2.point(tid); // initial point: the controller decides who starts
            let r = std::panic::catch_unwind(std::panic::AssertUnwindSafe(|| b()));
            GATE.with(|g| *g.borrow_mut() = None);
            s2.done(tid);
            r.ok()
        }));
    }
    let mut points = vec![];
    let mut choices = vec![];
    let mut prev: Option<usize> = None;
    let mut infeasible = false;
    let mut overlapped = false;
    let mut loose: Vec<bool> = vec![false; n];
    // a thread waiting for a lock may retry only after another thread has run
    let mut retry_ok: Vec<bool> = vec![false; n];
    let mut deadlocked = false;
    let mut diverged = false;
    // the thread the controller is currently waiting for (None at the start: wait for everybody)
    let mut awaited: Option<usize> = None;
    'outer: loop {
        let mut st = s.m.lock().unwrap_or_else(|e| e.into_inner());
        // 1. wait for the awaited thread to stop running (point reached or done), or declare it loose
        // the awaited thread first has to wake up and take its turn (can be slow on a loaded machine:
        // generous limit); only from then on does "no point reached within BLOCK_TIMEOUT" mean blocked
        let hard_deadline = Instant::now() + STEP_TIMEOUT;
        let mut took_turn_at: Option<Instant> = None;
        loop {
            for t in 0..n {
                if loose[t] && st.status[t] != 0 {
                    loose[t] = false; // rejoined the controlled set
                }
            }
            let running_controlled = match awaited {
                Some(t) => st.turn.is_some() || st.status[t] == 0,
                None => st.turn.is_some() || (0..n).any(|t| st.status[t] == 0 && !loose[t]),
            };
            if !running_controlled {
                break;
            }
            let now = Instant::now();
            if awaited.is_some() && st.turn.is_none() && took_turn_at.is_none() {
                took_turn_at = Some(now);
            }
            let deadline = match (awaited, took_turn_at) {
                (Some(_), Some(t0)) => (t0 + BLOCK_TIMEOUT).min(hard_deadline),
                _ => hard_deadline,
            };
            if now >= deadline {
                match awaited {
                    Some(t) if st.turn.is_none() => {
                        loose[t] = true;
                        overlapped = true;
                        break;
                    }
                    _ => {
                        st.free_run = true;
                        st.aborted = true;
                        s.cv.notify_all();
                        infeasible = true;
                        break 'outer;
                    }
                }
            }
            let (g, _) = s.cv.wait_timeout(st, deadline - now).unwrap_or_else(|e| e.into_inner());
            st = g;
        }
        // 2. decide
        // A thread that reported itself blocked may retry only after ANOTHER thread has made progress (reached an
        // ordinary point or finished); another thread's failed retry is no progress — otherwise two threads that
        // wait for each other would take turns failing for ever instead of being recognised as a deadlock.
        if let Some(a) = awaited {
            if st.status[a] == 3 {
                retry_ok[a] = false; // it just failed
            } else {
                for t in 0..n {
                    if t != a {
                        retry_ok[t] = true;
                    }
                }
            }
        }
        let mut enabled: Vec<usize> = (0..n).filter(|&t| st.status[t] == 1 || (st.status[t] == 3 && retry_ok[t])).collect();
        if enabled.is_empty() {
            if (0..n).all(|t| st.status[t] == 2) {
                break;
            }
            if (0..n).all(|t| st.status[t] == 2 || st.status[t] == 3) {
                // every live thread waits for a lock (or a notification) nobody will give
                st.free_run = true;
                st.aborted = true;
                s.cv.notify_all();
                infeasible = true;
                deadlocked = true;
                break 'outer;
            }
            // only loose threads are left: wait for one of them to reach a point or finish
            let deadline = Instant::now() + STEP_TIMEOUT;
            loop {
                if (0..n).any(|t| st.status[t] == 1 || st.status[t] == 3) || (0..n).all(|t| st.status[t] == 2) {
                    break;
                }
                let now = Instant::now();
                if now >= deadline {
                    st.free_run = true;
                    st.aborted = true;
                    s.cv.notify_all();
                    infeasible = true; // deadlock among threads the scheduler does not own
                    break 'outer;
                }
                let (g, _) = s.cv.wait_timeout(st, deadline - now).unwrap_or_else(|e| e.into_inner());
                st = g;
            }
            awaited = None;
            for t in 0..n {
                if st.status[t] != 0 {
                    loose[t] = false;
                }
                retry_ok[t] = true; // a loose thread has run meanwhile
            }
            drop(st);
            continue;
        }
        let running_still_enabled = prev.map_or(false, |p| enabled.contains(&p));
        if let (true, Some(p)) = (running_still_enabled, prev) {
            enabled.retain(|&t| t != p);
            enabled.insert(0, p);
        }
        let k = points.len();
        let choice = if k < prefix.len() { prefix[k] } else { 0 };
        if choice >= enabled.len() {
            // The prefix cannot be replayed: this execution met different scheduling points than the one the
            // prefix was recorded from. Under full control that means the subject's behaviour depends on
            // something that survived from an earlier execution (a global cache, a lazily initialised static):
            // the schedule is given up and counted, it is not a verdict by itself.
            st.free_run = true;
            st.aborted = true;
            s.cv.notify_all();
            infeasible = true;
            diverged = true;
            break 'outer;
        }
        let tid = enabled[choice];
        points.push(Point { enabled, running_still_enabled });
        choices.push(choice);
        prev = Some(tid);
        awaited = Some(tid);
        st.turn = Some(tid);
        s.cv.notify_all();
    }
    // Workers of an abandoned execution unwind at their next scheduling point; one that is blocked inside the
    // operating system (a real lock of a deadlocked execution) never comes back: it is left behind, not joined.
    let mut results = vec![];
    let give_up = Instant::now() + Duration::from_millis(1500);
    for h in handles {
        if infeasible {
            while !h.is_finished() && Instant::now() < give_up {
                std::thread::sleep(Duration::from_millis(1));
            }
        }
        if !infeasible || h.is_finished() {
            results.push(h.join().ok().flatten().unwrap_or_default());
        } else {
            results.push(R::default());
            std::mem::forget(h);
        }
    }
    Execution { points, choices, results, infeasible, overlapped, deadlocked, diverged }
}

pub struct Exploration {
    /// the exploration was cut short: too many executions ended on a time-out (a thread stuck in the operating
    /// system, outside the scheduler's control); what was explored until then is still reported
    pub gave_up: bool,
    pub executions: u64,
    pub infeasible: u64,
    pub overlapped: u64,
    pub deadlocks: Vec<Vec<usize>>,
    pub diverged: u64,
    pub max_points: usize,
}

/// Explore every schedule with at most `bound` preemptions (CHESS-style, by re-execution).
/// `check` is called with (choices, results) of every complete feasible execution.
pub fn explore<R: Send + 'static + Default>(bodies: &[Body<R>], bound: usize, reset: &dyn Fn(), check: &mut dyn FnMut(&[usize], &[R])) -> Exploration {
    let mut ex = Exploration { gave_up: false, executions: 0, infeasible: 0, overlapped: 0, deadlocks: vec![], diverged: 0, max_points: 0 };
    fn preemptions(points: &[Point], choices: &[usize], upto: usize) -> usize {
        (0..upto).filter(|&i| points[i].running_still_enabled && choices[i] != 0).count()
    }
    fn rec<R: Send + 'static + Default>(bodies: &[Body<R>], bound: usize, prefix: Vec<usize>, ex: &mut Exploration, reset: &dyn Fn(), check: &mut dyn FnMut(&[usize], &[R])) {
        if ex.gave_up {
            return;
        }
        reset(); // every execution starts from the same initial state
        let x = run_once(bodies, &prefix);
        ex.executions += 1;
        ex.max_points = ex.max_points.max(x.points.len());
        if x.overlapped {
            ex.overlapped += 1;
        }
        if x.deadlocked {
            ex.deadlocks.push(x.choices.clone());
        }
        if x.diverged {
            ex.diverged += 1;
        }
        if x.infeasible {
            ex.infeasible += 1;
            if !x.deadlocked && !x.diverged && ex.infeasible - ex.deadlocks.len() as u64 - ex.diverged > 4 {
                ex.gave_up = true;
            }
            return;
        }
        check(&x.choices, &x.results);
        for i in prefix.len()..x.points.len() {
            let p = &x.points[i];
            let mut cost = preemptions(&x.points, &x.choices, i);
            if p.running_still_enabled {
                cost += 1;
            }
            if cost > bound {
                continue;
            }
            for alt in 1..p.enabled.len() {
                let mut np: Vec<usize> = x.choices[..i].to_vec();
                np.push(alt);
                rec(bodies, bound, np, ex, reset, check);
            }
        }
    }
    rec(bodies, bound, vec![], &mut ex, reset, check);
    ex
}
