//! C08 — numbers said one after another are not fused; digit dictation keeps every digit (E-SWEEP).
use crate::infra::*;
use crate::langs::{self, L};
use crate::spell::{self, Var};
use serde_json::json;
use text2num::replace_numbers_in_text;

/// morphemes of the standard spelling of n, normalised (lowercase, plural/flexion marks and the
/// conjunction removed) so that two renderings of the same words compare equal
fn norm_morphs(l: L, n: u64) -> Vec<String> {
    norm_morphs_v(l, n, Var::default())
}
fn norm_morphs_v(l: L, n: u64, v: Var) -> Vec<String> {
    spell::morphs(l, n, v)
        .into_iter()
        .map(|m| m.to_lowercase())
        .filter(|m| m != l.conj() && !(l == L::Nl && m == "ën"))
        .map(|m| match (l, m.as_str()) {
            (L::Fr, "vingts") => "vingt".to_string(),
            (L::Fr, "cents") => "cent".to_string(),
            (L::De, "eins") => "ein".to_string(),
            (L::It, "tré") => "tre".to_string(),
            (L::Nl, "één") => "een".to_string(),
            _ => m,
        })
        .collect()
}

fn digit_word(l: L, d: u8) -> String {
    if d == 0 {
        l.zero().to_string()
    } else {
        spell::spell(l, d as u64, Var::default())
    }
}

/// expected grouping of a dictated digit string: zeros attach to the following non-zero digit,
/// trailing zeros stand alone
fn dictation_expected(d: &[u8]) -> String {
    let mut groups: Vec<String> = vec![];
    let mut cur = String::new();
    for &c in d {
        cur.push((b'0' + c) as char);
        if c != 0 {
            groups.push(std::mem::take(&mut cur));
        }
    }
    if !cur.is_empty() {
        groups.push(cur);
    }
    groups.join(" ")
}

pub fn run(tier: Tier) -> i32 {
    let ctx = Ctx::new("C08", tier);
    let dict_len = tier.pick(6usize, 8);
    // shards: (lang, kind 0 = pairs a in [lo,hi), kind 1 = dictation with first digits prefix)
    let mut shards: Vec<(L, u8, u64, u64)> = vec![];
    for l in langs::ALL {
        for a in (0..100).step_by(10) {
            shards.push((l, 0, a, a + 10));
        }
        for p in 0..100 {
            shards.push((l, 1, p, p + 1));
        }
    }
    let mut acc = par_shards(shards, |&(l, kind, lo, hi), acc| {
        let lang = l.facade();
        if kind == 0 {
            let sp: Vec<String> = (0..100).map(|n| spell::spell(l, n, Var::default())).collect();
            let nm: Vec<Vec<String>> = (0..100).map(|n| norm_morphs(l, n)).collect();
            // candidate fusions: numbers whose normalised morphemes are a concatenation of two
            let all_nm: Vec<(u64, Vec<String>)> = (0..10_000).map(|n| (n, norm_morphs(l, n))).collect();
            for a in lo..hi {
                for b in 0..100u64 {
                    for joiner in [" ".to_string(), format!(" {} ", l.conj())] {
                        acc.states += 1;
                        acc.traces += 1;
                        let s = format!("{}{}{}", sp[a as usize], joiner, sp[b as usize]);
                        acc.transitions += s.split(' ').count() as u64;
                        let got = guard(|| replace_numbers_in_text(&s, &lang, 0.0)).unwrap_or_else(|p| p);
                        acc.outcome(&got);
                        let mut allowed: Vec<String> = vec![format!("{a}{joiner}{b}")];
                        let mut cat = nm[a as usize].clone();
                        cat.extend(nm[b as usize].iter().cloned());
                        for (c, m) in &all_nm {
                            if *m == cat {
                                allowed.push(c.to_string());
                            }
                        }
                        if a == 0 && joiner == " " {
                            // leading-zero rule of the same statement / C16
                            allowed.push(format!("0{b}"));
                        }
                        if !allowed.contains(&got) {
                            ctx.report(acc, Violation {
                                lang: l.code().into(),
                                entry: "replace_text".into(),
                                input: s,
                                threshold: Some(0.0),
                                clause: "two complete numbers below 100: both numbers in order, or the single number spelled by exactly those words".into(),
                                expected: allowed.join(" | "),
                                observed: got,
                            });
                        }
                    }
                }
            }
            // the same pairs when the first number does not open the builder: after a spoken zero ("zero A B" — the zero
            // is a leading zero of A, C16), and with a hundred in front of A (the first number is 100 + A)
            for a in lo..hi {
                for b in 0..100u64 {
                    let mut cat = nm[a as usize].clone();
                    cat.extend(nm[b as usize].iter().cloned());
                    let fused: Vec<u64> = all_nm.iter().filter(|(c, m)| *c < 100 && *m == cat).map(|(c, _)| *c).collect();
                    // zero prefix
                    {
                        acc.states += 1;
                        acc.traces += 1;
                        let s = format!("{} {} {}", l.zero(), sp[a as usize], sp[b as usize]);
                        let got = guard(|| replace_numbers_in_text(&s, &lang, 0.0)).unwrap_or_else(|p| p);
                        let mut allowed: Vec<String> = vec![format!("0{a} {b}")];
                        allowed.extend(fused.iter().map(|c| format!("0{c}")));
                        if a == 0 {
                            allowed.push(format!("00{b}"));
                        }
                        if !allowed.contains(&got) {
                            ctx.report(acc, Violation { lang: l.code().into(), entry: "replace_text".into(), input: s, threshold: Some(0.0), clause: "two complete numbers below 100 after a spoken zero: both numbers in order (the zero leading the first), or the single number spelled by exactly those words".into(), expected: allowed.join(" | "), observed: got });
                        }
                    }
                    // a hundred in front of the first number
                    if a >= 1 {
                        acc.states += 1;
                        acc.traces += 1;
                        let s = format!("{} {}", spell::spell(l, 100 + a, Var::default()), sp[b as usize]);
                        let got = guard(|| replace_numbers_in_text(&s, &lang, 0.0)).unwrap_or_else(|p| p);
                        let mut allowed: Vec<String> = vec![format!("{} {b}", 100 + a)];
                        allowed.extend(fused.iter().map(|c| format!("{}", 100 + c)));
                        if !allowed.contains(&got) {
                            ctx.report(acc, Violation { lang: l.code().into(), entry: "replace_text".into(), input: s, threshold: Some(0.0), clause: "a number 100 + a (0 < a < 100) followed by a complete number below 100: both numbers in order, or 100 + the single number spelled by the words of a and b".into(), expected: allowed.join(" | "), observed: got });
                        }
                    }
                }
            }
            // inflected / alias forms: every vocabulary word that validates on its own to a plain number b < 100 but is not
            // the standard spelling of b (plurals, aliases) as the SECOND number: it may fuse with a no more than b's
            // standard spelling may
            if lo == 0 {
                let mut forms: Vec<(String, u64)> = vec![];
                // one-word alias spellings produced by the variant axes (zwo, één, septante, accent-less forms ...)
                for (_, v) in spell::axes(l).into_iter().skip(1) {
                    for b in 0..100u64 {
                        let w = spell::spell(l, b, v);
                        if !w.contains(' ') && w != sp[b as usize] && !forms.iter().any(|(x, _)| *x == w) && matches!(guard(|| text2num::text2digits(&w, &lang)), Ok(Ok(ref d)) if *d == b.to_string()) {
                            forms.push((w, b));
                        }
                    }
                }
                // plural cardinals the lemmatizers strip (only where the library takes the word for the number)
                for b in 1..=9u64 {
                    let w = format!("{}s", sp[b as usize]);
                    if matches!(guard(|| text2num::text2digits(&w, &lang)), Ok(Ok(ref d)) if *d == b.to_string()) && !forms.iter().any(|(x, _)| *x == w) {
                        forms.push((w, b));
                    }
                }
                for (w, b) in &forms {
                    for a in 0..100u64 {
                        acc.states += 1;
                        acc.traces += 1;
                        let s = format!("{} {}", sp[a as usize], w);
                        let got = guard(|| replace_numbers_in_text(&s, &lang, 0.0)).unwrap_or_else(|p| p);
                        let mut allowed: Vec<String> = vec![format!("{a} {b}")];
                        let mut cat = nm[a as usize].clone();
                        cat.extend(nm[*b as usize].iter().cloned());
                        for (c, m) in &all_nm {
                            if *m == cat {
                                allowed.push(c.to_string());
                            }
                        }
                        if a == 0 {
                            allowed.push(format!("0{b}"));
                        }
                        if !allowed.contains(&got) {
                            ctx.report(acc, Violation {
                                lang: l.code().into(),
                                entry: "replace_text".into(),
                                input: s,
                                threshold: Some(0.0),
                                clause: format!("two complete numbers below 100, the second in the inflected or alias form {w:?} (= {b}): no fusion that the standard spelling of {b} would not allow"),
                                expected: allowed.join(" | "),
                                observed: got,
                            });
                        }
                    }
                }
            }
            // the same pairs spoken as the fractional part of a decimal (languages whose fraction is read as a
            // number): the fraction is the first number or the allowed fusion, never another fusion
            if !matches!(l, L::En | L::De) {
                let int_word = spell::spell(l, 3, Var::default());
                for a in lo..hi {
                    for b in 0..100u64 {
                        acc.states += 1;
                        acc.traces += 1;
                        let s = format!("{int_word} {} {} {}", l.sep(), sp[a as usize], sp[b as usize]);
                        let got = guard(|| replace_numbers_in_text(&s, &lang, 0.0)).unwrap_or_else(|p| p);
                        let m = l.mark();
                        let mut allowed: Vec<String> = vec![format!("3{m}{a} {b}")];
                        let mut cat = nm[a as usize].clone();
                        cat.extend(nm[b as usize].iter().cloned());
                        for (c, mm) in &all_nm {
                            if *mm == cat {
                                allowed.push(format!("3{m}{c}"));
                            }
                        }
                        if a == 0 {
                            allowed.push(format!("3{m}0{b}"));
                        }
                        if !allowed.contains(&got) {
                            ctx.report(acc, Violation {
                                lang: l.code().into(),
                                entry: "replace_text".into(),
                                input: s,
                                threshold: Some(0.0),
                                clause: "two complete numbers below 100 after a decimal separator: the fraction is the first one (or the number spelled by exactly those words), the second stays apart".into(),
                                expected: allowed.join(" | "),
                                observed: got,
                            });
                        }
                    }
                }
            }
            // the same pairs in each accepted orthographic variant (aliases, regional forms, split words...)
            for (vname, v) in spell::axes(l).into_iter().skip(1) {
                if l == L::Fr && v.hyph == 1 {
                    // 'quatre vingt' written apart makes the segmentation into two numbers ambiguous
                    // ('vingt quatre vingts' is also 24 followed by 20)
                    continue;
                }
                let spv: Vec<String> = (0..100).map(|n| spell::spell(l, n, v)).collect();
                let nmv: Vec<Vec<String>> = (0..100).map(|n| norm_morphs_v(l, n, v)).collect();
                let all_nmv: Vec<(u64, Vec<String>)> = (0..10_000).map(|n| (n, norm_morphs_v(l, n, v))).collect();
                for a in lo..hi {
                    for b in 0..100u64 {
                        if spv[a as usize] == sp[a as usize] && spv[b as usize] == sp[b as usize] {
                            continue;
                        }
                        for joiner in [" ".to_string(), format!(" {} ", l.conj())] {
                            acc.states += 1;
                            acc.traces += 1;
                            let s = format!("{}{}{}", spv[a as usize], joiner, spv[b as usize]);
                            let got = guard(|| replace_numbers_in_text(&s, &lang, 0.0)).unwrap_or_else(|p| p);
                            let mut allowed: Vec<String> = vec![format!("{a}{joiner}{b}")];
                            let mut cat = nmv[a as usize].clone();
                            cat.extend(nmv[b as usize].iter().cloned());
                            for (c, m) in all_nmv.iter().chain(all_nm.iter()) {
                                if *m == cat && !allowed.contains(&c.to_string()) {
                                    allowed.push(c.to_string());
                                }
                            }
                            if a == 0 && joiner == " " {
                                allowed.push(format!("0{b}"));
                            }
                            if !allowed.contains(&got) {
                                ctx.report(acc, Violation {
                                    lang: l.code().into(),
                                    entry: "replace_text".into(),
                                    input: s,
                                    threshold: Some(0.0),
                                    clause: format!("two complete numbers below 100 (variant: {vname}): both numbers in order, or the single number spelled by exactly those words"),
                                    expected: allowed.join(" | "),
                                    observed: got,
                                });
                            }
                        }
                    }
                }
            }
            acc.sample(json!({"lang": l.code(), "pair": format!("{} {}", sp[20], sp[12])}));
        } else {
            // dictation: all digit strings of length 1..=dict_len whose first two digits are `lo` (and the short ones once)
            // digit words: the standard ones, and (as a second pass, lengths <= 5) the aliases the language accepts
            // for single digits: English 'o' / 'nought' for zero, German 'zwo', Dutch 'één'
            let std_words: Vec<String> = (0..10u8).map(|d| digit_word(l, d)).collect();
            let mut word_sets: Vec<(Vec<String>, usize)> = vec![(std_words.clone(), dict_len)];
            let alias = |d: usize, w: &str| -> (Vec<String>, usize) {
                let mut v = std_words.clone();
                v[d] = w.to_string();
                (v, dict_len.min(5))
            };
            match l {
                L::En => {
                    word_sets.push(alias(0, "o"));
                    word_sets.push(alias(0, "nought"));
                }
                L::De => word_sets.push(alias(2, "zwo")),
                L::Nl => word_sets.push(alias(1, "één")),
                _ => {}
            }
            let p = lo as u8;
            let (d0, d1) = (p / 10, p % 10);
            for (words, dict_len) in word_sets {
            let mut run_one = |digits: &[u8], acc: &mut Acc| {
                if digits == [0] && words[0] == "o" {
                    return; // a lone 'o' has no number word next to it: an ordinary word by the 'o' rule (C18)
                }
                acc.states += 1;
                acc.traces += 1;
                acc.transitions += digits.len() as u64;
                let s = digits.iter().map(|&d| words[d as usize].as_str()).collect::<Vec<_>>().join(" ");
                let exp = dictation_expected(digits);
                let got = guard(|| replace_numbers_in_text(&s, &lang, 0.0)).unwrap_or_else(|p| p);
                if got != exp {
                    ctx.report(acc, Violation {
                        lang: l.code().into(),
                        entry: "replace_text".into(),
                        input: s,
                        threshold: Some(0.0),
                        clause: "a dictated digit sequence yields the same digits in order, zeros attach to the next non-zero digit, trailing zeros stand alone".into(),
                        expected: exp,
                        observed: got,
                    });
                }
            };
            if d1 == 0 {
                run_one(&[d0], acc);
            }
            run_one(&[d0, d1], acc);
            for len in 3..=dict_len {
                let rest = len - 2;
                let mut digits = vec![0u8; len];
                digits[0] = d0;
                digits[1] = d1;
                for x in 0..10u32.pow(rest as u32) {
                    let mut y = x;
                    for i in (2..len).rev() {
                        digits[i] = (y % 10) as u8;
                        y /= 10;
                    }
                    run_one(&digits, acc);
                }
            }
            }
        }
    });
    acc.nontrivial = acc.states;
    let cov = json!({
        "exhaustive": true,
        "rule": "all (a,b) in [0,99]^2 x {space, conjunction} x 7 languages rewritten at threshold 0 and compared with the allowed set {a j b} U {c < 10000 : morphemes(c) = morphemes(a)+morphemes(b) modulo the conjunction} (+ '0b' for a = 0); all digit strings up to the length bound dictated digit by digit",
        "bounds": {"pairs": 20000 * 7, "pairs_in_each_orthographic_variant": true, "dictation_max_len": dict_len, "dictation_with_digit_aliases": "en o / nought, de zwo, nl één; lengths <= 5"},
    });
    ctx.finish(acc, cov, vec!["standard spellings of a and b, then each accepted orthographic variant alone (fr 'quatre vingt' written apart excluded: the segmentation into two numbers is then ambiguous); fusion is judged on morphemes with the conjunction removed".into()])
}
