//! Reference spellers: n -> standard spelling (and named orthographic variants) as morpheme
//! lists, for the seven languages. Written from the orthographic rules of each language, not
//! from the interpreter's match arms. Cardinals < 10^12, ordinals with inflections.
use crate::langs::L;

#[derive(Clone, Copy, PartialEq, Eq, Debug)]
pub enum G {
    /// separate words
    W,
    /// hyphen in standard spelling
    H,
    /// joined (compound word) in standard spelling
    J,
    /// space in standard spelling, hyphen under the French 1990 reform
    R,
}

#[derive(Clone, Copy, Default, Debug, PartialEq, Eq, Hash)]
pub struct Var {
    /// 0 standard, 1 spaces instead of hyphens, 2 hyphens everywhere (fr 1990 reform)
    pub hyph: u8,
    /// compound words written as separate words (de, nl, it)
    pub split: bool,
    /// optional conjunction present (en "and", it "e" after milioni)
    pub conj: bool,
    /// en: plural scale words; fr: plural "s" of cents/vingts/millions dropped
    pub plural: bool,
    /// fr: 1 septante/nonante, 2 +huitante, 3 +octante; pt: 1 Brazilian
    pub regional: u8,
    /// language specific alias set (see `axes`)
    pub alias: u8,
}

pub struct Sp {
    pub v: Var,
    pub out: String,
    pub morphs: Vec<(G, String)>,
    pub keep_morphs: bool,
}

fn glue_str(g: G, v: Var) -> &'static str {
    match g {
        G::W => " ",
        G::H => {
            if v.hyph == 1 {
                " "
            } else {
                "-"
            }
        }
        G::J => {
            if v.split {
                " "
            } else {
                ""
            }
        }
        G::R => {
            if v.hyph == 2 {
                "-"
            } else {
                " "
            }
        }
    }
}

pub fn render(ms: &[(G, String)], v: Var) -> String {
    let mut out = String::new();
    for (i, (g, w)) in ms.iter().enumerate() {
        if i > 0 {
            out.push_str(glue_str(*g, v));
        }
        out.push_str(w);
    }
    out
}

impl Sp {
    pub fn new(v: Var, keep_morphs: bool) -> Sp {
        Sp {
            v,
            out: String::with_capacity(96),
            morphs: Vec::new(),
            keep_morphs,
        }
    }
    /// add morpheme `w`, attached to what precedes by glue `g`
    pub fn w(&mut self, g: G, w: &str) {
        if !self.out.is_empty() {
            self.out.push_str(glue_str(g, self.v));
        }
        self.out.push_str(w);
        if self.keep_morphs {
            self.morphs.push((g, w.to_string()));
        }
    }
    /// replace the last morpheme's text (used by ordinal formation)
    pub fn is_empty(&self) -> bool {
        self.out.is_empty()
    }
}

fn groups(mut n: u64) -> Vec<u32> {
    let mut g = vec![];
    loop {
        g.push((n % 1000) as u32);
        n /= 1000;
        if n == 0 {
            break;
        }
    }
    g
}

// ------------------------------------------------------------------ English
const EN_U: [&str; 20] = [
    "zero", "one", "two", "three", "four", "five", "six", "seven", "eight", "nine", "ten", "eleven", "twelve",
    "thirteen", "fourteen", "fifteen", "sixteen", "seventeen", "eighteen", "nineteen",
];
const EN_T: [&str; 10] = ["", "", "twenty", "thirty", "forty", "fifty", "sixty", "seventy", "eighty", "ninety"];

fn en_lt100(sp: &mut Sp, n: u32) {
    if n < 20 {
        sp.w(G::W, EN_U[n as usize]);
        return;
    }
    let (t, u) = (n / 10, n % 10);
    let tw = if t == 4 && sp.v.alias == 1 { "fourty" } else { EN_T[t as usize] };
    sp.w(G::W, tw);
    if u > 0 {
        sp.w(G::H, EN_U[u as usize]);
    }
}
fn en_lt1000(sp: &mut Sp, n: u32) {
    let (h, r) = (n / 100, n % 100);
    if h > 0 {
        sp.w(G::W, EN_U[h as usize]);
        sp.w(G::W, if sp.v.plural && h > 1 { "hundreds" } else { "hundred" });
    }
    if r > 0 {
        if h > 0 && sp.v.conj {
            sp.w(G::W, "and");
        }
        en_lt100(sp, r);
    }
}
pub fn en(sp: &mut Sp, n: u64) {
    if n == 0 {
        sp.w(G::W, "zero");
        return;
    }
    let g = groups(n);
    let sc = ["", "thousand", "million", "billion"];
    for i in (0..g.len()).rev() {
        if g[i] == 0 {
            continue;
        }
        if i == 0 && sp.v.conj && g.len() > 1 && g[0] < 100 && !sp.is_empty() {
            sp.w(G::W, "and");
        }
        en_lt1000(sp, g[i]);
        if i > 0 {
            if sp.v.plural && g[i] > 1 {
                sp.w(G::W, &format!("{}s", sc[i]));
            } else {
                sp.w(G::W, sc[i]);
            }
        }
    }
}

// ------------------------------------------------------------------ French
const FR_U: [&str; 17] = [
    "zéro", "un", "deux", "trois", "quatre", "cinq", "six", "sept", "huit", "neuf", "dix", "onze", "douze", "treize",
    "quatorze", "quinze", "seize",
];
fn fr_lt20(sp: &mut Sp, g: G, n: u32) {
    if n < 17 {
        sp.w(g, FR_U[n as usize]);
    } else {
        sp.w(g, "dix");
        sp.w(G::H, FR_U[(n - 10) as usize]);
    }
}
fn fr_et(sp: &mut Sp, w: &str) {
    // "et" is written with spaces traditionally, with hyphens under the 1990 reform
    sp.w(G::R, "et");
    sp.w(G::R, w);
}
/// plural80: "quatre-vingts" takes its s (end of a numeral adjective or before a noun)
fn fr_lt100(sp: &mut Sp, g: G, n: u32, plural80: bool) {
    if n < 20 {
        fr_lt20(sp, g, n);
        return;
    }
    let (t, u) = (n / 10, n % 10);
    let reg = sp.v.regional;
    let simple: Option<&str> = match t {
        2 => Some("vingt"),
        3 => Some("trente"),
        4 => Some("quarante"),
        5 => Some("cinquante"),
        6 => Some("soixante"),
        7 if reg >= 1 => Some("septante"),
        8 if reg == 2 => Some("huitante"),
        8 if reg == 3 => Some("octante"),
        9 if reg >= 1 => Some("nonante"),
        _ => None,
    };
    if let Some(tw) = simple {
        sp.w(g, tw);
        if u == 1 {
            fr_et(sp, "un");
        } else if u > 1 {
            sp.w(G::H, FR_U[u as usize]);
        }
        return;
    }
    match t {
        7 => {
            sp.w(g, "soixante");
            if u == 1 {
                fr_et(sp, "onze");
            } else {
                fr_lt20(sp, G::H, 10 + u);
            }
        }
        _ => {
            // 8 or 9 on base quatre-vingt
            sp.w(g, "quatre");
            let s = t == 8 && u == 0 && plural80 && !sp.v.plural;
            sp.w(G::H, if s { "vingts" } else { "vingt" });
            if t == 9 {
                fr_lt20(sp, G::H, 10 + u);
            } else if u > 0 {
                sp.w(G::H, FR_U[u as usize]);
            }
        }
    }
}
fn fr_lt1000(sp: &mut Sp, g: G, n: u32, fin: bool) {
    let (h, r) = (n / 100, n % 100);
    let mut g = g;
    if h > 0 {
        if h > 1 {
            sp.w(g, FR_U[h as usize]);
            g = G::R;
        }
        let s = h > 1 && r == 0 && fin && !sp.v.plural;
        sp.w(g, if s { "cents" } else { "cent" });
        g = G::R;
    }
    if r > 0 {
        fr_lt100(sp, g, r, fin);
    }
}
pub fn fr(sp: &mut Sp, n: u64) {
    if n == 0 {
        sp.w(G::W, "zéro");
        return;
    }
    let g = groups(n);
    let mut glue = G::W;
    for i in (0..g.len()).rev() {
        if g[i] == 0 {
            continue;
        }
        match i {
            0 => fr_lt1000(sp, glue, g[0], true),
            1 => {
                let mil = sp.v.alias == 1 && g[1] == 1 && n > 1000 && n < 2000;
                if g[1] > 1 {
                    fr_lt1000(sp, glue, g[1], false);
                    sp.w(G::R, "mille");
                } else {
                    sp.w(glue, if mil { "mil" } else { "mille" });
                }
                glue = G::R;
            }
            _ => {
                fr_lt1000(sp, glue, g[i], true);
                let nm = if i == 2 { "million" } else { "milliard" };
                if g[i] > 1 && !sp.v.plural {
                    sp.w(G::W, &format!("{nm}s"));
                } else {
                    sp.w(G::W, nm);
                }
                glue = G::W;
            }
        }
    }
}

// ------------------------------------------------------------------ Spanish
const ES_U: [&str; 30] = [
    "cero", "uno", "dos", "tres", "cuatro", "cinco", "seis", "siete", "ocho", "nueve", "diez", "once", "doce", "trece",
    "catorce", "quince", "dieciséis", "diecisiete", "dieciocho", "diecinueve", "veinte", "veintiuno", "veintidós",
    "veintitrés", "veinticuatro", "veinticinco", "veintiséis", "veintisiete", "veintiocho", "veintinueve",
];
const ES_T: [&str; 10] = ["", "", "", "treinta", "cuarenta", "cincuenta", "sesenta", "setenta", "ochenta", "noventa"];
const ES_H: [&str; 10] = [
    "", "ciento", "doscientos", "trescientos", "cuatrocientos", "quinientos", "seiscientos", "setecientos",
    "ochocientos", "novecientos",
];
fn es_deaccent(s: &str) -> String {
    s.replace('é', "e").replace('ó', "o").replace('á', "a").replace('í', "i").replace('ú', "u")
}
fn es_w(sp: &mut Sp, w: &str) {
    if sp.v.alias == 1 {
        let d = es_deaccent(w);
        sp.w(G::W, &d);
    } else {
        sp.w(G::W, w);
    }
}
/// apo: 0 = full "uno", 1 = apocopated "un"/"veintiún" (before a noun or scale word), 2 = feminine "una"
fn es_lt100(sp: &mut Sp, n: u32, apo: u8) {
    if n < 30 {
        let s: String = match (n, apo) {
            (1, 1) => "un".into(),
            (1, 2) => "una".into(),
            (21, 1) => "veintiún".into(),
            (21, 2) => "veintiuna".into(),
            _ => ES_U[n as usize].into(),
        };
        es_w(sp, &s);
        return;
    }
    let (t, u) = (n / 10, n % 10);
    es_w(sp, ES_T[t as usize]);
    if u > 0 {
        es_w(sp, "y");
        let s = match (u, apo) {
            (1, 1) => "un",
            (1, 2) => "una",
            _ => ES_U[u as usize],
        };
        es_w(sp, s);
    }
}
fn es_lt1000(sp: &mut Sp, n: u32, apo: u8) {
    if n == 100 {
        es_w(sp, "cien");
        return;
    }
    let (h, r) = (n / 100, n % 100);
    if h > 0 {
        if sp.v.alias == 3 && h > 1 {
            let f = ES_H[h as usize].replace("ientos", "ientas");
            es_w(sp, &f);
        } else {
            es_w(sp, ES_H[h as usize]);
        }
    }
    if r > 0 {
        es_lt100(sp, r, apo);
    }
}
fn es_lt1e6(sp: &mut Sp, n: u32, apo: u8) {
    let (th, r) = (n / 1000, n % 1000);
    if th > 0 {
        if th > 1 {
            es_lt1000(sp, th, if sp.v.alias == 3 { 2 } else { 1 });
        }
        es_w(sp, "mil");
    }
    if r > 0 {
        es_lt1000(sp, r, apo);
    }
}
/// alias: 0 standard, 1 accent-less, 2 final "un" (apocope), 3 feminine
pub fn es(sp: &mut Sp, n: u64) {
    if n == 0 {
        sp.w(G::W, "cero");
        return;
    }
    let (mi, r) = ((n / 1_000_000) as u32, (n % 1_000_000) as u32);
    if mi > 0 {
        if mi == 1 {
            es_w(sp, "un");
            es_w(sp, "millón");
        } else {
            es_lt1e6(sp, mi, 1);
            es_w(sp, "millones");
        }
    }
    if r > 0 {
        let apo = match sp.v.alias {
            2 => 1,
            3 => 2,
            _ => 0,
        };
        es_lt1e6(sp, r, apo);
    }
}

// ------------------------------------------------------------------ Portuguese
const PT_U: [&str; 20] = [
    "zero", "um", "dois", "três", "quatro", "cinco", "seis", "sete", "oito", "nove", "dez", "onze", "doze", "treze",
    "catorze", "quinze", "dezasseis", "dezassete", "dezoito", "dezanove",
];
const PT_T: [&str; 10] = ["", "", "vinte", "trinta", "quarenta", "cinquenta", "sessenta", "setenta", "oitenta", "noventa"];
const PT_H: [&str; 10] = [
    "", "cento", "duzentos", "trezentos", "quatrocentos", "quinhentos", "seiscentos", "setecentos", "oitocentos",
    "novecentos",
];
fn pt_u(sp: &mut Sp, n: u32) {
    let br = sp.v.regional == 1;
    let fem = sp.v.alias == 1;
    let w = match n {
        1 if fem => "uma",
        2 if fem => "duas",
        14 if br => "quatorze",
        16 if br => "dezesseis",
        17 if br => "dezessete",
        19 if br => "dezenove",
        _ => PT_U[n as usize],
    };
    sp.w(G::W, w);
}
fn pt_lt1000(sp: &mut Sp, n: u32) {
    if n == 100 {
        sp.w(G::W, "cem");
        return;
    }
    let (h, r) = (n / 100, n % 100);
    let mut first = true;
    let mut e = |sp: &mut Sp, first: &mut bool| {
        if !*first {
            sp.w(G::W, "e");
        }
        *first = false;
    };
    if h > 0 {
        e(sp, &mut first);
        if sp.v.alias == 1 && h > 1 {
            let f = PT_H[h as usize].replace("entos", "entas");
            sp.w(G::W, &f);
        } else {
            sp.w(G::W, PT_H[h as usize]);
        }
    }
    if r > 0 {
        if r < 20 {
            e(sp, &mut first);
            pt_u(sp, r);
        } else {
            let (t, u) = (r / 10, r % 10);
            e(sp, &mut first);
            sp.w(G::W, PT_T[t as usize]);
            if u > 0 {
                e(sp, &mut first);
                pt_u(sp, u);
            }
        }
    }
}
fn pt_needs_e(g: u32) -> bool {
    g < 100 || g % 100 == 0
}
fn pt_lt1e6(sp: &mut Sp, n: u32) {
    let (th, r) = (n / 1000, n % 1000);
    if th > 0 {
        if th > 1 {
            pt_lt1000(sp, th);
        }
        sp.w(G::W, "mil");
    }
    if r > 0 {
        if th > 0 && pt_needs_e(r) {
            sp.w(G::W, "e");
        }
        pt_lt1000(sp, r);
    }
}
/// regional 1 = Brazilian (short scale bilhão, BR teens); alias 1 = feminine
pub fn pt(sp: &mut Sp, n: u64) {
    if n == 0 {
        sp.w(G::W, "zero");
        return;
    }
    // alias 2: the short-scale word respelled "bilião / biliões" (the library lists it next to "bilhão / bilhões")
    let br = sp.v.regional == 1 || sp.v.alias == 2;
    let (bi_sg, bi_pl) = if sp.v.alias == 2 { ("bilião", "biliões") } else { ("bilhão", "bilhões") };
    // parts: (kind, value) ; kind 0 = bilhões, 1 = milhões, 2 = rest
    let (bi, mi, r): (u32, u32, u32) = if br {
        ((n / 1_000_000_000) as u32, ((n / 1_000_000) % 1000) as u32, (n % 1_000_000) as u32)
    } else {
        (0, (n / 1_000_000) as u32, (n % 1_000_000) as u32)
    };
    let nparts = (bi > 0) as u32 + (mi > 0) as u32 + (r > 0) as u32;
    let mut k = 0;
    if bi > 0 {
        k += 1;
        if bi == 1 {
            sp.w(G::W, "um");
            sp.w(G::W, bi_sg);
        } else {
            pt_lt1000(sp, bi);
            sp.w(G::W, bi_pl);
        }
    }
    if mi > 0 {
        k += 1;
        let _ = k;
        if mi == 1 {
            sp.w(G::W, "um");
            sp.w(G::W, "milhão");
        } else {
            pt_lt1e6(sp, mi);
            sp.w(G::W, "milhões");
        }
    }
    if r > 0 {
        let last_needs_e = nparts > 1
            && (r < 100 || (r < 1000 && r % 100 == 0) || (r % 1000 == 0 && pt_needs_e(r / 1000)));
        if last_needs_e {
            sp.w(G::W, "e");
        }
        pt_lt1e6(sp, r);
    }
}

// ------------------------------------------------------------------ Italian
const IT_U: [&str; 20] = [
    "zero", "uno", "due", "tre", "quattro", "cinque", "sei", "sette", "otto", "nove", "dieci", "undici", "dodici",
    "tredici", "quattordici", "quindici", "sedici", "diciassette", "diciotto", "diciannove",
];
const IT_T: [&str; 10] = ["", "", "venti", "trenta", "quaranta", "cinquanta", "sessanta", "settanta", "ottanta", "novanta"];
/// alias: 1 = "tre" without accent in compounds, 2 = no elision of cento before ottanta
/// `fin`: the morpheme ends the written word (the accent of -tré is only written word-finally)
fn it_lt100(sp: &mut Sp, g: G, n: u32, fin: bool) {
    let compound = g == G::J && !sp.v.split;
    let tre = if compound && fin && sp.v.alias != 1 { "tré" } else { "tre" };
    if n < 20 {
        sp.w(g, if n == 3 { tre } else { IT_U[n as usize] });
        return;
    }
    let (t, u) = (n / 10, n % 10);
    let b = IT_T[t as usize];
    if u == 0 {
        sp.w(g, b);
    } else if u == 1 || u == 8 {
        // elision: one orthographic unit (ventuno, ventotto)
        let w = format!("{}{}", &b[..b.len() - 1], IT_U[u as usize]);
        sp.w(g, &w);
    } else if u == 3 {
        sp.w(g, b);
        let tre = if !sp.v.split && fin && sp.v.alias != 1 { "tré" } else { "tre" };
        sp.w(G::J, tre);
    } else {
        sp.w(g, b);
        sp.w(G::J, IT_U[u as usize]);
    }
}
fn it_lt1000(sp: &mut Sp, g: G, n: u32, fin: bool) {
    let (h, r) = (n / 100, n % 100);
    let mut g = g;
    if h > 0 {
        if h > 1 {
            sp.w(g, IT_U[h as usize]);
            g = G::J;
        }
        if r / 10 == 8 && sp.v.alias != 2 && !sp.v.split {
            // elided: cent + ottanta… is one orthographic unit with what follows
            let mut tmp = Sp::new(sp.v, false);
            tmp.w(G::W, "cent");
            it_lt100(&mut tmp, G::J, r, fin);
            let w = tmp.out.clone();
            sp.w(g, &w);
            return;
        }
        sp.w(g, "cento");
        g = G::J;
    }
    if r > 0 {
        it_lt100(sp, g, r, fin);
    }
}
pub fn it(sp: &mut Sp, n: u64) {
    if n == 0 {
        sp.w(G::W, "zero");
        return;
    }
    let g = groups(n);
    for i in (2..g.len()).rev() {
        if g[i] == 0 {
            continue;
        }
        let (sg, pl) = if i == 2 { ("milione", "milioni") } else { ("miliardo", "miliardi") };
        if g[i] == 1 {
            sp.w(G::W, "un");
            sp.w(G::W, sg);
        } else {
            it_lt1000(sp, G::W, g[i], true);
            sp.w(G::W, pl);
        }
    }
    let low = n % 1_000_000;
    if low > 0 && n >= 1_000_000 && sp.v.conj {
        sp.w(G::W, "e");
    }
    let mut glue = G::W;
    if g.len() > 1 && g[1] > 0 {
        if g[1] == 1 {
            sp.w(glue, "mille");
        } else {
            it_lt1000(sp, glue, g[1], false);
            sp.w(G::J, "mila");
        }
        glue = G::J;
    }
    if g[0] > 0 {
        it_lt1000(sp, glue, g[0], true);
    }
}

// ------------------------------------------------------------------ German
const DE_U: [&str; 20] = [
    "null", "ein", "zwei", "drei", "vier", "fünf", "sechs", "sieben", "acht", "neun", "zehn", "elf", "zwölf",
    "dreizehn", "vierzehn", "fünfzehn", "sechzehn", "siebzehn", "achtzehn", "neunzehn",
];
const DE_T: [&str; 10] = ["", "", "zwanzig", "dreißig", "vierzig", "fünfzig", "sechzig", "siebzig", "achtzig", "neunzig"];
/// alias: 1 = bare "hundert"/"tausend" (no ein-), 2 = "dreissig", 3 = "zwo"
fn de_u(sp: &mut Sp, g: G, n: u32) {
    if n == 2 && sp.v.alias == 3 {
        sp.w(g, "zwo");
    } else {
        sp.w(g, DE_U[n as usize]);
    }
}
fn de_lt100(sp: &mut Sp, g: G, n: u32, fin: bool) {
    if n == 1 {
        sp.w(g, if fin { "eins" } else { "ein" });
        return;
    }
    if n < 20 {
        if n < 10 {
            de_u(sp, g, n);
        } else {
            sp.w(g, DE_U[n as usize]);
        }
        return;
    }
    let (t, u) = (n / 10, n % 10);
    let tw = if t == 3 && sp.v.alias == 2 { "dreissig" } else { DE_T[t as usize] };
    if u > 0 {
        de_u(sp, g, u);
        sp.w(G::J, "und");
        sp.w(G::J, tw);
    } else {
        sp.w(g, tw);
    }
}
fn de_lt1000(sp: &mut Sp, g: G, n: u32, fin: bool) {
    let (h, r) = (n / 100, n % 100);
    let mut g = g;
    if h > 0 {
        if h > 1 || sp.v.alias != 1 {
            de_u(sp, g, h);
            g = G::J;
        }
        sp.w(g, "hundert");
        g = G::J;
    }
    if r > 0 {
        de_lt100(sp, g, r, fin);
    }
}
pub fn de_opts(sp: &mut Sp, n: u64, eine: &str) {
    if n == 0 {
        sp.w(G::W, "null");
        return;
    }
    let g = groups(n);
    for i in (2..g.len()).rev() {
        if g[i] == 0 {
            continue;
        }
        let (sg, pl) = if i == 2 { ("Million", "Millionen") } else { ("Milliarde", "Milliarden") };
        if g[i] == 1 {
            sp.w(G::W, eine);
            sp.w(G::W, sg);
        } else {
            de_lt1000(sp, G::W, g[i], false);
            sp.w(G::W, pl);
        }
    }
    let mut glue = G::W;
    if g.len() > 1 && g[1] > 0 {
        if g[1] > 1 || sp.v.alias != 1 {
            de_lt1000(sp, glue, g[1], false);
            glue = G::J;
        }
        sp.w(glue, "tausend");
        glue = G::J;
    }
    if g[0] > 0 {
        de_lt1000(sp, glue, g[0], true);
    }
}
pub fn de(sp: &mut Sp, n: u64) {
    de_opts(sp, n, "eine")
}

// ------------------------------------------------------------------ Dutch
const NL_U: [&str; 20] = [
    "nul", "een", "twee", "drie", "vier", "vijf", "zes", "zeven", "acht", "negen", "tien", "elf", "twaalf", "dertien",
    "veertien", "vijftien", "zestien", "zeventien", "achttien", "negentien",
];
const NL_T: [&str; 10] = ["", "", "twintig", "dertig", "veertig", "vijftig", "zestig", "zeventig", "tachtig", "negentig"];
/// alias 1 = "één" for a final unit one
fn nl_lt100(sp: &mut Sp, g: G, n: u32) {
    if n < 20 {
        if n == 1 && sp.v.alias == 1 {
            sp.w(g, "één");
        } else {
            sp.w(g, NL_U[n as usize]);
        }
        return;
    }
    let (t, u) = (n / 10, n % 10);
    if u == 0 {
        sp.w(g, NL_T[t as usize]);
        return;
    }
    let uw = NL_U[u as usize];
    sp.w(g, uw);
    // in the compound the diaeresis marks the syllable break after a final e; written apart it is plain "en"
    sp.w(G::J, if uw.ends_with('e') && !sp.v.split { "ën" } else { "en" });
    sp.w(G::J, NL_T[t as usize]);
}
fn nl_lt1000(sp: &mut Sp, g: G, n: u32) {
    let (h, r) = (n / 100, n % 100);
    let mut g = g;
    if h > 0 {
        if h > 1 {
            sp.w(g, NL_U[h as usize]);
            g = G::J;
        }
        sp.w(g, "honderd");
        g = G::J;
    }
    if r > 0 {
        nl_lt100(sp, g, r);
    }
}
pub fn nl(sp: &mut Sp, n: u64) {
    if n == 0 {
        sp.w(G::W, "nul");
        return;
    }
    let g = groups(n);
    for i in (0..g.len()).rev() {
        if g[i] == 0 {
            continue;
        }
        match i {
            0 => nl_lt1000(sp, G::W, g[0]),
            1 => {
                if g[1] > 1 {
                    nl_lt1000(sp, G::W, g[1]);
                    sp.w(G::J, "duizend");
                } else {
                    sp.w(G::W, "duizend");
                }
            }
            _ => {
                nl_lt1000(sp, G::W, g[i]);
                sp.w(G::W, if i == 2 { "miljoen" } else { "miljard" });
            }
        }
    }
}

// ------------------------------------------------------------------ front end
pub fn spell_into(l: L, sp: &mut Sp, n: u64) {
    match l {
        L::En => en(sp, n),
        L::Fr => fr(sp, n),
        L::Es => es(sp, n),
        L::Pt => pt(sp, n),
        L::It => it(sp, n),
        L::De => de(sp, n),
        L::Nl => nl(sp, n),
    }
}
pub fn spell(l: L, n: u64, v: Var) -> String {
    let mut sp = Sp::new(v, false);
    spell_into(l, &mut sp, n);
    sp.out
}
pub fn morphs_g(l: L, n: u64, v: Var) -> Vec<(G, String)> {
    let mut sp = Sp::new(v, true);
    spell_into(l, &mut sp, n);
    sp.morphs
}
pub fn morphs(l: L, n: u64, v: Var) -> Vec<String> {
    morphs_g(l, n, v).into_iter().map(|(_, w)| w).collect()
}

/// Variant axes per language: (axis name, value of Var). The first entry is the standard spelling.
pub fn axes(l: L) -> Vec<(&'static str, Var)> {
    let s = Var::default();
    let mut v = vec![("standard", s)];
    match l {
        L::En => {
            v.push(("hyphen->space", Var { hyph: 1, ..s }));
            v.push(("with 'and'", Var { conj: true, ..s }));
            v.push(("plural scale words", Var { plural: true, ..s }));
            v.push(("alias fourty", Var { alias: 1, ..s }));
        }
        L::Fr => {
            v.push(("hyphen->space", Var { hyph: 1, ..s }));
            v.push(("1990 reform hyphens", Var { hyph: 2, ..s }));
            v.push(("plural s dropped", Var { plural: true, ..s }));
            v.push(("septante/nonante", Var { regional: 1, ..s }));
            v.push(("huitante", Var { regional: 2, ..s }));
            v.push(("octante", Var { regional: 3, ..s }));
            v.push(("mil", Var { alias: 1, ..s }));
        }
        L::Es => {
            v.push(("accent-less", Var { alias: 1, ..s }));
            v.push(("final apocope un", Var { alias: 2, ..s }));
            v.push(("feminine", Var { alias: 3, ..s }));
        }
        L::Pt => {
            v.push(("brazilian", Var { regional: 1, ..s }));
            v.push(("feminine", Var { alias: 1, ..s }));
            v.push(("bilião for bilhão", Var { alias: 2, ..s }));
        }
        L::It => {
            v.push(("split words", Var { split: true, ..s }));
            v.push(("tre without accent", Var { alias: 1, ..s }));
            v.push(("cento not elided", Var { alias: 2, ..s }));
            v.push(("'e' after milioni", Var { conj: true, ..s }));
        }
        L::De => {
            v.push(("split words", Var { split: true, ..s }));
            v.push(("bare hundert/tausend", Var { alias: 1, ..s }));
            v.push(("dreissig", Var { alias: 2, ..s }));
            v.push(("zwo", Var { alias: 3, ..s }));
        }
        L::Nl => {
            v.push(("split words", Var { split: true, ..s }));
            v.push(("één", Var { alias: 1, ..s }));
        }
    }
    v
}

/// All combinations of the language's independent variant dimensions (used below 10^5).
pub fn all_combos(l: L) -> Vec<Var> {
    let mut out = vec![];
    let (hy, sp_, cj, pl, rg, al): (Vec<u8>, Vec<bool>, Vec<bool>, Vec<bool>, Vec<u8>, Vec<u8>) = match l {
        L::En => (vec![0, 1], vec![false], vec![false, true], vec![false, true], vec![0], vec![0, 1]),
        L::Fr => (vec![0, 1, 2], vec![false], vec![false], vec![false, true], vec![0, 1, 2, 3], vec![0, 1]),
        L::Es => (vec![0], vec![false], vec![false], vec![false], vec![0], vec![0, 1, 2, 3]),
        L::Pt => (vec![0], vec![false], vec![false], vec![false], vec![0, 1], vec![0, 1, 2]),
        L::It => (vec![0], vec![false, true], vec![false, true], vec![false], vec![0], vec![0, 1, 2]),
        L::De => (vec![0], vec![false, true], vec![false], vec![false], vec![0], vec![0, 1, 2, 3]),
        L::Nl => (vec![0], vec![false, true], vec![false], vec![false], vec![0], vec![0, 1]),
    };
    for &hyph in &hy {
        for &split in &sp_ {
            for &conj in &cj {
                for &plural in &pl {
                    for &regional in &rg {
                        for &alias in &al {
                            out.push(Var { hyph, split, conj, plural, regional, alias });
                        }
                    }
                }
            }
        }
    }
    out
}
