//! Per-language numeral grammar of the digit form: `digits (mark digits)? marker?` or es `1/digits`.
use crate::langs::L;

#[derive(Debug, Clone, PartialEq)]
pub struct Numeral {
    pub int_digits: String,
    pub frac_digits: Option<String>,
    pub marker: Option<String>,
    pub es_fraction: bool,
    pub value: f64,
}

fn all_digits(s: &str) -> bool {
    !s.is_empty() && s.bytes().all(|c| c.is_ascii_digit())
}

/// Parse `text` as a numeral of language `l`; None if it is not well-formed.
pub fn read(l: L, text: &str) -> Option<Numeral> {
    if l == L::Es {
        if let Some(d) = text.strip_prefix("1/") {
            if all_digits(d) {
                let v: f64 = d.parse().ok()?;
                return Some(Numeral { int_digits: d.into(), frac_digits: None, marker: None, es_fraction: true, value: v.recip() });
            }
            return None;
        }
    }
    let mut body = text;
    let mut marker = None;
    let first_non_digit = body.find(|c: char| !c.is_ascii_digit()).unwrap_or(body.len());
    // try: digits marker ; digits mark digits ; digits mark digits marker
    let (int_digits, rest) = body.split_at(first_non_digit);
    if !all_digits(int_digits) {
        return None;
    }
    body = rest;
    let mut frac = None;
    if let Some(r) = body.strip_prefix(l.mark()) {
        // German ordinal marker is "." but the German decimal mark is ","; no clash in any language
        let fd_end = r.find(|c: char| !c.is_ascii_digit()).unwrap_or(r.len());
        let (fd, rest2) = r.split_at(fd_end);
        if all_digits(fd) {
            frac = Some(fd.to_string());
            body = rest2;
        }
    }
    if !body.is_empty() {
        if l.markers().iter().any(|m| *m == body) {
            marker = Some(body.to_string());
        } else {
            return None;
        }
    }
    let value: f64 = match &frac {
        Some(fd) => format!("{int_digits}.{fd}").parse().ok()?,
        None => int_digits.parse().ok()?,
    };
    Some(Numeral { int_digits: int_digits.into(), frac_digits: frac, marker, es_fraction: false, value })
}
