//! Reference ordinal spellers with inflections. Returns (spelling, expected marker, inflection name).
use crate::langs::L;
use crate::spell::{self, render, Var, G};

pub struct OrdForm {
    pub text: String,
    pub marker: String,
    pub infl: &'static str,
}

pub fn max_rank(l: L) -> u64 {
    match l {
        L::Es => 1999,
        L::Pt => 999_999_999,
        _ => 1_000_000,
    }
}

fn en_suffix(n: u64) -> &'static str {
    if (11..=13).contains(&(n % 100)) {
        "th"
    } else {
        match n % 10 {
            1 => "st",
            2 => "nd",
            3 => "rd",
            _ => "th",
        }
    }
}
fn en_ord_word(w: &str) -> String {
    match w {
        "one" => "first".into(),
        "two" => "second".into(),
        "three" => "third".into(),
        "five" => "fifth".into(),
        "eight" => "eighth".into(),
        "nine" => "ninth".into(),
        "twelve" => "twelfth".into(),
        _ if w.ends_with('y') => format!("{}ieth", &w[..w.len() - 1]),
        _ => format!("{w}th"),
    }
}
fn en_ord(n: u64, v: Var, out: &mut Vec<OrdForm>) {
    let v = Var { plural: false, ..v };
    let mut ms = spell::morphs_g(L::En, n, v);
    let last = ms.len() - 1;
    ms[last].1 = en_ord_word(&ms[last].1);
    let sg = render(&ms, v);
    let suf = en_suffix(n);
    out.push(OrdForm { text: sg.clone(), marker: suf.into(), infl: "sg" });
    // plural (fractional use): not for first/second, whose plurals are ordinary nouns / the time unit
    if suf == "th" || suf == "rd" {
        out.push(OrdForm { text: format!("{sg}s"), marker: format!("{suf}s"), infl: "pl" });
    }
}

fn fr_ord_word(w: &str) -> String {
    let w = match w {
        "cents" => "cent",
        "vingts" => "vingt",
        "millions" => "million",
        "milliards" => "milliard",
        x => x,
    };
    match w {
        "un" => "unième".into(),
        "cinq" => "cinquième".into(),
        "neuf" => "neuvième".into(),
        _ if w.ends_with('e') => format!("{}ième", &w[..w.len() - 1]),
        _ => format!("{w}ième"),
    }
}
fn fr_ord(n: u64, v: Var, out: &mut Vec<OrdForm>) {
    if n == 1 {
        for (t, m, i) in [
            ("premier", "er", "m.sg"),
            ("première", "ère", "f.sg"),
            ("premiers", "ers", "m.pl"),
            ("premières", "ères", "f.pl"),
        ] {
            out.push(OrdForm { text: t.into(), marker: m.into(), infl: i });
        }
        return;
    }
    let sg = if n == 1_000_000 {
        "millionième".to_string()
    } else {
        let mut ms = spell::morphs_g(L::Fr, n, v);
        let last = ms.len() - 1;
        ms[last].1 = fr_ord_word(&ms[last].1);
        render(&ms, v)
    };
    out.push(OrdForm { text: sg.clone(), marker: "ème".into(), infl: "sg" });
    out.push(OrdForm { text: format!("{sg}s"), marker: "èmes".into(), infl: "pl" });
}

fn de_ord(n: u64, v: Var, out: &mut Vec<OrdForm>) {
    let stem = if n == 1_000_000 {
        "millionst".to_string()
    } else {
        let mut ms = spell::morphs_g(L::De, n, v);
        let last = ms.len() - 1;
        let w = ms[last].1.clone();
        let r = n % 100;
        let o = match w.as_str() {
            "eins" | "ein" => "erst".to_string(),
            "drei" => "dritt".to_string(),
            "sieben" => "siebt".to_string(),
            "acht" => "acht".to_string(),
            _ if (1..20).contains(&r) => format!("{w}t"),
            _ => format!("{w}st"),
        };
        ms[last].1 = o;
        render(&ms, v)
    };
    for (e, i) in [("e", "-e"), ("er", "-er"), ("en", "-en"), ("es", "-es"), ("em", "-em")] {
        out.push(OrdForm { text: format!("{stem}{e}"), marker: ".".into(), infl: i });
    }
}

fn nl_ord(n: u64, v: Var, out: &mut Vec<OrdForm>) {
    let text = if n == 1_000_000 {
        "miljoenste".to_string()
    } else {
        let v = Var { alias: 0, ..v };
        let mut ms = spell::morphs_g(L::Nl, n, v);
        let last = ms.len() - 1;
        let w = ms[last].1.clone();
        let r = n % 100;
        let o = match w.as_str() {
            "een" => "eerste".to_string(),
            "drie" => "derde".to_string(),
            "acht" => "achtste".to_string(),
            _ if (1..20).contains(&r) => format!("{w}de"),
            _ => format!("{w}ste"),
        };
        ms[last].1 = o;
        render(&ms, v)
    };
    out.push(OrdForm { text, marker: "e".into(), infl: "-" });
}

const IT_ORD: [&str; 11] = [
    "", "prim", "second", "terz", "quart", "quint", "sest", "settim", "ottav", "non", "decim",
];
fn it_ord(n: u64, v: Var, out: &mut Vec<OrdForm>) {
    let stem: String = if n <= 10 {
        IT_ORD[n as usize].into()
    } else if n == 1_000_000 {
        "milionesim".into()
    } else {
        let v = Var { split: false, conj: false, ..v };
        let s = spell::spell(L::It, n, v);
        if let Some(base) = s.strip_suffix("tré").or_else(|| s.strip_suffix("tre")) {
            format!("{base}treesim")
        } else if s.ends_with("dieci") {
            format!("{}decim", &s[..s.len() - 5])
        } else if s.ends_with("sei") {
            format!("{s}esim")
        } else if s.ends_with("mila") {
            format!("{}millesim", &s[..s.len() - 4])
        } else {
            // drop the final vowel
            let mut cs: Vec<char> = s.chars().collect();
            cs.pop();
            format!("{}esim", cs.into_iter().collect::<String>())
        }
    };
    for (e, m, i) in [("o", "º", "m.sg"), ("a", "ª", "f.sg"), ("i", "º", "m.pl"), ("e", "ª", "f.pl")] {
        out.push(OrdForm { text: format!("{stem}{e}"), marker: m.into(), infl: i });
    }
}

const ES_OU: [&str; 10] = ["", "primero", "segundo", "tercero", "cuarto", "quinto", "sexto", "séptimo", "octavo", "noveno"];
const ES_OT: [&str; 10] = [
    "", "décimo", "vigésimo", "trigésimo", "cuadragésimo", "quincuagésimo", "sexagésimo", "septuagésimo", "octogésimo",
    "nonagésimo",
];
const ES_OH: [&str; 10] = [
    "", "centésimo", "ducentésimo", "tricentésimo", "cuadringentésimo", "quingentésimo", "sexcentésimo",
    "septingentésimo", "octingentésimo", "noningentésimo",
];
const ES_TEEN1: [&str; 10] = [
    "", "undécimo", "duodécimo", "decimotercero", "decimocuarto", "decimoquinto", "decimosexto", "decimoséptimo",
    "decimoctavo", "decimonoveno",
];
const PT_OU: [&str; 10] = ["", "primeiro", "segundo", "terceiro", "quarto", "quinto", "sexto", "sétimo", "oitavo", "nono"];
const PT_OT: [&str; 10] = [
    "", "décimo", "vigésimo", "trigésimo", "quadragésimo", "quinquagésimo", "sexagésimo", "septuagésimo", "octogésimo",
    "nonagésimo",
];
const PT_OH: [&str; 10] = [
    "", "centésimo", "ducentésimo", "trecentésimo", "quadringentésimo", "quingentésimo", "sexcentésimo",
    "septingentésimo", "octingentésimo", "noningentésimo",
];

fn positional(n: u64, u: &[&str; 10], t: &[&str; 10], h: &[&str; 10], teens: Option<&[&str; 10]>) -> Vec<String> {
    let mut w: Vec<String> = vec![];
    if n >= 1000 {
        w.push("milésimo".into());
    }
    let r = n % 1000;
    if r / 100 > 0 {
        w.push(h[(r / 100) as usize].into());
    }
    let r = r % 100;
    if let (Some(tt), true) = (teens, (11..20).contains(&r)) {
        w.push(tt[(r - 10) as usize].into());
        return w;
    }
    if r / 10 > 0 {
        w.push(t[(r / 10) as usize].into());
    }
    if r % 10 > 0 {
        w.push(u[(r % 10) as usize].into());
    }
    w
}
fn inflect_oa(words: &[String], out: &mut Vec<OrdForm>) {
    for (from, to, m, i) in [
        ("o", "o", "º", "m.sg"),
        ("o", "a", "ª", "f.sg"),
        ("o", "os", "ᵒˢ", "m.pl"),
        ("o", "as", "ᵃˢ", "f.pl"),
    ] {
        let ws: Vec<String> = words
            .iter()
            .map(|w| {
                let stem = w.strip_suffix(from).unwrap_or(w);
                format!("{stem}{to}")
            })
            .collect();
        out.push(OrdForm { text: ws.join(" "), marker: m.into(), infl: i });
    }
}
fn es_ord(n: u64, v: Var, out: &mut Vec<OrdForm>) {
    let words = positional(n, &ES_OU, &ES_OT, &ES_OH, if v.alias == 1 { Some(&ES_TEEN1) } else { None });
    inflect_oa(&words, out);
    if n == 1 {
        out.push(OrdForm { text: "primer".into(), marker: ".ᵉʳ".into(), infl: "apocope" });
    }
    if n == 3 {
        out.push(OrdForm { text: "tercer".into(), marker: ".ᵉʳ".into(), infl: "apocope" });
    }
}
fn pt_ord(n: u64, _v: Var, out: &mut Vec<OrdForm>) {
    // from 2000 on the thousands are counted with an ordinal multiplier: "segundo milésimo" (2000.º),
    // "vigésimo quinto milésimo" (25 000.º), "centésimo milésimo" (100 000.º)
    // the millions likewise: "milionésimo" (10^6.º), "centésimo milionésimo" (10^8.º)
    let m = n / 1_000_000;
    let n = n % 1_000_000;
    let mut words: Vec<String> = if m >= 2 { positional(m, &PT_OU, &PT_OT, &PT_OH, None) } else { vec![] };
    if m >= 1 {
        words.push("milionésimo".into());
    }
    let k = n / 1000;
    words.extend(if k >= 2 { positional(k, &PT_OU, &PT_OT, &PT_OH, None) } else { vec![] });
    words.extend(positional(n % 1000 + if k >= 1 { 1000 } else { 0 }, &PT_OU, &PT_OT, &PT_OH, None));
    inflect_oa(&words, out);
}

/// All inflected forms of the n-th ordinal in language `l` under spelling variant `v`.
pub fn ord_forms(l: L, n: u64, v: Var) -> Vec<OrdForm> {
    let mut out = vec![];
    match l {
        L::En => en_ord(n, v, &mut out),
        L::Fr => fr_ord(n, v, &mut out),
        L::Es => es_ord(n, v, &mut out),
        L::Pt => pt_ord(n, v, &mut out),
        L::It => it_ord(n, v, &mut out),
        L::De => de_ord(n, v, &mut out),
        L::Nl => nl_ord(n, v, &mut out),
    }
    out
}

/// Spelling variants exercised for ordinals (first = standard).
pub fn ord_axes(l: L) -> Vec<(&'static str, Var)> {
    let s = Var::default();
    let mut v = vec![("standard", s)];
    match l {
        L::En => {
            v.push(("hyphen->space", Var { hyph: 1, ..s }));
            v.push(("with 'and'", Var { conj: true, ..s }));
        }
        L::Fr => {
            v.push(("hyphen->space", Var { hyph: 1, ..s }));
            v.push(("septante/nonante", Var { regional: 1, ..s }));
            v.push(("huitante", Var { regional: 2, ..s }));
            v.push(("octante", Var { regional: 3, ..s }));
        }
        L::Es => v.push(("one-word 11th-19th", Var { alias: 1, ..s })),
        L::Pt => {}
        L::It => v.push(("cento not elided", Var { alias: 2, ..s })),
        L::De => {
            v.push(("split words", Var { split: true, ..s }));
            v.push(("bare hundert/tausend", Var { alias: 1, ..s }));
        }
        L::Nl => v.push(("split words", Var { split: true, ..s })),
    }
    v
}

#[allow(dead_code)]
fn _g(_: G) {}
