//! C03, very long inputs on a small stack (dev-profile build of the library).
//! usage: deeprec-probe <tokens> <stack-KiB>
//! Runs every entry point of every language on long token runs, each call on a fresh thread with the
//! given stack. Prints one line per (language, input kind) when done; a stack overflow kills the process.
use text2num::{find_numbers, find_numbers_iter, replace_numbers_in_text, text2digits, Language, Token};

struct Tok(String);
impl Token for &Tok {
    fn text(&self) -> &str {
        &self.0
    }
    fn text_lowercase(&self) -> &str {
        &self.0
    }
}

fn main() {
    let args: Vec<String> = std::env::args().collect();
    let n: usize = args.get(1).and_then(|s| s.parse().ok()).unwrap_or(20_000);
    let stack_kib: usize = args.get(2).and_then(|s| s.parse().ok()).unwrap_or(512);
    let langs: [(&str, fn() -> Language, [&str; 4]); 7] = [
        ("en", Language::english, ["xyzzy", "one", "thousand", "and"]),
        ("fr", Language::french, ["xyzzy", "un", "mille", "et"]),
        ("es", Language::spanish, ["xyzzy", "uno", "mil", "y"]),
        ("pt", Language::portuguese, ["xyzzy", "um", "mil", "e"]),
        ("it", Language::italian, ["xyzzy", "uno", "mille", "e"]),
        ("de", Language::german, ["xyzzy", "eins", "tausend", "und"]),
        ("nl", Language::dutch, ["xyzzy", "een", "duizend", "en"]),
    ];
    let mut handles = vec![];
    for (code, mk, words) in langs {
        for w in words {
            for joiner in [" ", "-", ", "] {
                // one huge hyphenated token costs quadratic time in the word splitters: a tenth of the length
                let n = if joiner == "-" { n / 10 } else { n };
                let w = w.to_string();
                let label = w.clone();
                let h = std::thread::Builder::new()
                    .stack_size(stack_kib * 1024)
                    .spawn(move || {
                        let lang = mk();
                        let text = vec![w.as_str(); n].join(joiner);
                        let toks: Vec<Tok> = text.split(' ').map(|t| Tok(t.to_string())).collect();
                        let mut sum = 0usize;
                        sum += text2digits(&text, &lang).map(|s| s.len()).unwrap_or(0);
                        for thr in [0.0, 10.0] {
                            sum += replace_numbers_in_text(&text, &lang, thr).len();
                            sum += find_numbers(toks.iter(), &lang, thr).len();
                            sum += find_numbers_iter(toks.iter(), &lang, thr).count();
                        }
                        sum
                    })
                    .expect("spawn");
                handles.push((h, format!("{code} {label:?} x{n} joined by {joiner:?}")));
            }
        }
    }
    // 70 000 spoken zeros (counters narrower than usize overflow there in a debug build), on a normal stack
    for (code, mk, zero) in [("en", Language::english as fn() -> Language, "zero"), ("fr", Language::french, "zéro"), ("de", Language::german, "null")] {
        let h = std::thread::spawn(move || {
            let lang = mk();
            let text = vec![zero; 70_000].join(" ") + " xyzzy";
            let r = std::panic::catch_unwind(std::panic::AssertUnwindSafe(|| {
                let a = text2digits(&text[..text.len() - 6], &lang).map(|s| s.len()).unwrap_or(0);
                let b = replace_numbers_in_text(&text, &lang, 0.0).len();
                (a, b)
            }));
            r.ok()
        });
        handles.push((std::thread::Builder::new().spawn(move || h.join().ok().flatten().map(|(a, b)| a + b).unwrap_or(usize::MAX)).expect("spawn"), format!("{code} {zero:?} x70000 joined by \" \"")));
    }
    for (h, what) in handles {
        match h.join() {
            Ok(usize::MAX) => println!("panic {what}"),
            Ok(sum) => println!("ok {what} -> {sum}"),
            Err(_) => println!("panic {what}"),
        }
    }
    // short streams in the dev profile (debug assertions, overflow checks): every sequence of <= 3 of 11 class
    // words (<= 4 of the first 7) per language x 7 thresholds x 4 entry points; a panic is reported, not fatal
    let short: [(&str, fn() -> Language, [&str; 11]); 7] = [
        ("en", Language::english, ["one", "five", "twenty", "third", "hundred", "and", "twentieth", "thousand", "point", "zero", "xyzzy"]),
        ("fr", Language::french, ["un", "cinq", "vingt", "troisième", "cent", "et", "vingtième", "mille", "virgule", "zéro", "xyzzy"]),
        ("es", Language::spanish, ["uno", "cinco", "veinte", "tercero", "cien", "y", "vigésimo", "mil", "coma", "cero", "xyzzy"]),
        ("pt", Language::portuguese, ["um", "cinco", "vinte", "terceiro", "cem", "e", "vigésimo", "mil", "vírgula", "zero", "xyzzy"]),
        ("it", Language::italian, ["uno", "cinque", "venti", "terzo", "cento", "e", "ventesimo", "mille", "virgola", "zero", "xyzzy"]),
        ("de", Language::german, ["ein", "fünf", "zwanzig", "dritte", "hundert", "und", "zwanzigste", "tausend", "komma", "null", "xyzzy"]),
        ("nl", Language::dutch, ["een", "vijf", "twintig", "derde", "honderd", "en", "twintigste", "duizend", "komma", "nul", "xyzzy"]),
    ];
    let mut hs = vec![];
    for (code, mk, words) in short {
        hs.push(std::thread::spawn(move || {
            let lang = mk();
            let mut calls = 0u64;
            let mut panics: Vec<String> = vec![];
            let mut idx: Vec<usize> = vec![];
            fn rec(idx: &mut Vec<usize>, words: &[&str; 11], lang: &Language, calls: &mut u64, panics: &mut Vec<String>, code: &str) {
                if !idx.is_empty() {
                    let text = idx.iter().map(|&i| words[i]).collect::<Vec<_>>().join(" ");
                    let toks: Vec<Tok> = text.split(' ').map(|t| Tok(t.to_string())).collect();
                    for thr in [0.0, 10.0, 50.0, 1000.0, f64::INFINITY, f64::NAN, -1.0] {
                        *calls += 4;
                        let r = std::panic::catch_unwind(std::panic::AssertUnwindSafe(|| {
                            let _ = text2digits(&text, lang);
                            let _ = replace_numbers_in_text(&text, lang, thr);
                            let _ = find_numbers(toks.iter(), lang, thr);
                            let _ = find_numbers_iter(toks.iter(), lang, thr).count();
                        }));
                        if r.is_err() && panics.len() < 5 {
                            panics.push(format!("panic {code} {text:?} threshold {thr}"));
                        }
                    }
                }
                let max = if idx.len() >= 3 { 7 } else { 11 };
                if idx.len() < 4 {
                    for i in 0..max {
                        if idx.len() == 3 && idx.iter().any(|&j| j >= 7) {
                            break;
                        }
                        idx.push(i);
                        rec(idx, words, lang, calls, panics, code);
                        idx.pop();
                    }
                }
            }
            rec(&mut idx, &words, &lang, &mut calls, &mut panics, code);
            (code, calls, panics)
        }));
    }
    // compound and hyphen-group words (a unit glued to a scale word, tens-unit groups) with the words they meet:
    // every sequence of <= 3 of 8 words per language, same thresholds and entry points
    let compound: [(&str, fn() -> Language, [&str; 8]); 7] = [
        ("en", Language::english, ["ten", "thousand", "two-thousand", "twenty-one", "one", "hundred", "million", "five-hundred"]),
        ("fr", Language::french, ["dix", "mille", "deux-mille", "vingt-et-un", "un", "cent", "million", "cinq-cents"]),
        ("es", Language::spanish, ["diez", "mil", "veintiuno", "dieciséis", "uno", "cien", "millón", "doscientos"]),
        ("pt", Language::portuguese, ["dez", "mil", "dezasseis", "duzentos", "um", "cem", "milhão", "quinhentos"]),
        ("it", Language::italian, ["dieci", "mille", "duemila", "ventuno", "uno", "cento", "milione", "cinquecento"]),
        ("de", Language::german, ["zehn", "tausend", "zweitausend", "einundzwanzig", "ein", "hundert", "million", "fünfhundert"]),
        ("nl", Language::dutch, ["tien", "duizend", "tweeduizend", "eenentwintig", "een", "honderd", "miljoen", "vijfhonderd"]),
    ];
    for (code, mk, words) in compound {
        hs.push(std::thread::spawn(move || {
            let lang = mk();
            let mut calls = 0u64;
            let mut panics: Vec<String> = vec![];
            let n = words.len();
            for len in 1..=3u32 {
                for mut x in 0..n.pow(len) {
                    let mut ws: Vec<&str> = vec![];
                    for _ in 0..len {
                        ws.push(words[x % n]);
                        x /= n;
                    }
                    let text = ws.join(" ");
                    let toks: Vec<Tok> = ws.iter().map(|t| Tok(t.to_string())).collect();
                    for thr in [0.0, 10.0, 50.0, 1000.0, f64::INFINITY, f64::NAN, -1.0] {
                        calls += 4;
                        let r = std::panic::catch_unwind(std::panic::AssertUnwindSafe(|| {
                            let _ = text2digits(&text, &lang);
                            let _ = replace_numbers_in_text(&text, &lang, thr);
                            let _ = find_numbers(toks.iter(), &lang, thr);
                            let _ = find_numbers_iter(toks.iter(), &lang, thr).count();
                        }));
                        if r.is_err() && panics.len() < 5 {
                            panics.push(format!("panic {code} {text:?} threshold {thr}"));
                        }
                    }
                }
            }
            (code, calls, panics)
        }));
    }
    std::panic::set_hook(Box::new(|_| {}));
    for h in hs {
        match h.join() {
            Ok((code, calls, panics)) => {
                for p in &panics {
                    println!("{p}");
                }
                println!("ok short streams {code}: {calls} calls, {} panicking inputs shown", panics.len());
            }
            Err(_) => println!("panic in the short-stream thread"),
        }
    }
    println!("done");
}
