pub mod c01;
