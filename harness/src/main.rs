mod checks;
mod explore;
mod model;
mod infra;
mod langs;
mod ordspell;
mod sched;
mod spell;
mod stream;
mod vocab;
mod vocab_lits;

use infra::Tier;
use langs::L;

fn usage() -> ! {
    eprintln!("usage: t2n-verif <C01..C18> --tier quick|thorough | probe <lang> <t2d|rep|ord|spell> <arg> [thr] | replay <path>");
    std::process::exit(2)
}

fn main() {
    let args: Vec<String> = std::env::args().collect();
    if args.len() < 2 {
        usage();
    }
    // The subject must not write to the standard streams (C14 checks that in a child process);
    // for every other check fd 2 is pointed at /dev/null so that a stray dbg!/eprintln! in the
    // subject cannot flood the log. The harness reports on stdout only.
    if args[1] != "silent-child" {
        unsafe {
            let devnull = libc::open(b"/dev/null\0".as_ptr() as *const libc::c_char, libc::O_WRONLY);
            if devnull >= 0 {
                libc::dup2(devnull, 2);
                libc::close(devnull);
            }
        }
    }
    // silence panic messages of the subject; panics are caught and reported as outcomes
    std::panic::set_hook(Box::new(|_| {}));
    let tier = match args.iter().position(|a| a == "--tier").and_then(|i| args.get(i + 1)).map(|s| s.as_str()) {
        Some("thorough") => Tier::Thorough,
        Some("quick") | None => match std::env::var("VERIF_TIER").as_deref() {
            Ok("thorough") if !args.iter().any(|a| a == "--tier") => Tier::Thorough,
            _ => Tier::Quick,
        },
        _ => usage(),
    };
    // No check may hang: a whole-run wall budget, far above the measured times (quick tiers take seconds, thorough
    // tiers minutes). Exceeding it is a failure of the machinery (exit 2), never a verdict on the property.
    if args[1].starts_with('C') {
        let budget = std::time::Duration::from_secs(if tier == Tier::Quick { 15 * 60 } else { 90 * 60 });
        let what = args[1].clone();
        std::thread::spawn(move || {
            std::thread::sleep(budget);
            println!("machinery: {what} exceeded its wall budget of {} s and was stopped", budget.as_secs());
            std::process::exit(2);
        });
    }
    let code = match infra::guard(|| match args[1].as_str() {
        "C01" => checks::c01::run(tier),
        "C12" => checks::c12::run(tier),
        "C06" => checks::c06::run(tier),
        "C14" => checks::c14::run(tier),
        "silent-child" => checks::c14::silent_child(),
        "c14-order-child" => checks::c14::order_child(args.get(2).map(|s| s.as_str()).unwrap_or("")),
        "C14-shim" => checks::c14::shim_child(tier),
        "setup" => checks::c14::setup(),
        "C02" => checks::c02::run(tier),
        "C10" => checks::c10::run(tier),
        "C17" => checks::c17::run(tier),
        "C18" => checks::c18::run(tier),
        "C11" => checks::c11::run(tier),
        "C13" => checks::c13::run(tier),
        "C08" => checks::c08::run(tier),
        "C16" => checks::c16::run(tier),
        "C05" => checks::c05::run(tier),
        "C04" => checks::c04::run(tier),
        "C15" => checks::c15::run(tier),
        "C09" => checks::c09::run(tier),
        "C07" => checks::c07::run(tier),
        "C03" => checks::c03::run(tier),
        "c03-child" => checks::c03::child(&args[2..]),
        "replay" => replay(&args[2]),
        "probe" => {
            probe(&args[2..]);
            0
        }
        _ => usage(),
    }) {
        Ok(c) => c,
        Err(p) => {
            // a panic of the harness itself (panics of the subject are caught where they are called)
            println!("machinery: the harness panicked: {p}");
            2
        }
    };
    std::process::exit(code);
}

fn probe(a: &[String]) {
    let l = L::from_code(&a[0]).expect("lang");
    let lang = l.facade();
    match a[1].as_str() {
        "t2d" => println!("{:?}", infra::guard(|| text2num::text2digits(&a[2], &lang))),
        "rep" => {
            let thr = a.get(3).map(|s| infra::thr_parse(s)).unwrap_or(0.0);
            println!("{:?}", infra::guard(|| text2num::replace_numbers_in_text(&a[2], &lang, thr)))
        }
        "newlits" => println!("{:?} {:?}", vocab::new_source_literals(l), vocab::new_symbol_literals(l)),
        "spell" => {
            let n: u64 = a[2].parse().unwrap();
            for (name, v) in spell::axes(l) {
                println!("{name:28} {}", spell::spell(l, n, v));
            }
        }
        "ord" => {
            let n: u64 = a[2].parse().unwrap();
            for (name, v) in ordspell::ord_axes(l) {
                for f in ordspell::ord_forms(l, n, v) {
                    println!("{name:22} {:6} {:40} -> {}{}", f.infl, f.text, n, f.marker);
                }
            }
        }
        _ => usage(),
    }
}

/// Re-execute a recorded violation without any explorer. Exit 1 if it still reproduces.
fn replay(path: &str) -> i32 {
    let txt = match std::fs::read_to_string(path) {
        Ok(t) => t,
        Err(e) => {
            println!("machinery: cannot read {path}: {e}");
            return 2;
        }
    };
    let v: serde_json::Value = match serde_json::from_str(&txt) {
        Ok(v) => v,
        Err(e) => {
            println!("machinery: {path} is not JSON: {e}");
            return 2;
        }
    };
    let g = |k: &str| v[k].as_str().unwrap_or("").to_string();
    let (prop, lang, entry, input, recorded, expected) = (g("property"), g("language"), g("entry_point"), g("input"), g("observed"), g("expected"));
    let thr = v["threshold"].as_str().map(infra::thr_parse).unwrap_or(0.0);
    println!("property {prop}  language {lang}  entry {entry}  threshold {}", infra::thr_name(thr));
    println!("input:    {input}");
    println!("expected: {expected}");
    println!("recorded: {recorded}");
    let l = L::from_code(&lang);
    let now: Option<String> = match (entry.as_str(), l) {
        ("text2digits", Some(l)) => Some(match infra::guard(|| text2num::text2digits(&input, &l.facade())) {
            Ok(Ok(s)) => s,
            Ok(Err(e)) => format!("Err({e:?})"),
            Err(p) => p,
        }),
        ("replace_text", Some(l)) => Some(infra::guard(|| text2num::replace_numbers_in_text(&input, &l.facade(), thr)).unwrap_or_else(|p| p)),
        ("find_text", Some(l)) => Some(infra::guard(|| stream::show_occs(&stream::find_in_text(&input, &l.facade(), thr).1)).unwrap_or_else(|p| p)),
        ("find_tokens", Some(l)) | ("find_tokens_iter", Some(l)) => {
            let words: Vec<String> = serde_json::from_str(&input).unwrap_or_default();
            let refs: Vec<&str> = words.iter().map(|s| s.as_str()).collect();
            let toks = stream::htoks(&refs);
            Some(infra::guard(|| stream::show_occs(&stream::find(&toks, &l.facade(), thr))).unwrap_or_else(|p| p))
        }
        ("digit_ops", _) => Some(checks::c12::replay(&input)),
        _ => None,
    };
    match now {
        Some(n) => {
            println!("now:      {n}");
            let same = recorded == n || recorded.contains(&n) || (entry == "digit_ops" && n.lines().last().map_or(false, |l| recorded.split(" -> ").last().map_or(false, |r| l.contains(r.trim_matches('"')))));
            if same && n != expected {
                println!("REPRODUCED");
                1
            } else if n == expected {
                println!("NOT REPRODUCED (the expected outcome is observed now)");
                0
            } else {
                println!("DIFFERENT OUTCOME (neither the recorded nor the expected one)");
                1
            }
        }
        None => {
            println!("this kind of violation ({entry}) is replayed by re-running: ./check {prop} quick");
            0
        }
    }
}
