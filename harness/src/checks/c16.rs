//! C16 — leading zeros are kept, zeros never attach after a number (E-SWEEP).
use crate::checks::c01::{G_Q, G_T};
use crate::infra::*;
use crate::langs::{self, L};
use crate::spell::{self, Var};
use serde_json::json;
use text2num::{replace_numbers_in_text, text2digits};

pub fn run(tier: Tier) -> i32 {
    let ctx = Ctx::new("C16", tier);
    let dense = tier.pick(100_000u64, 1_000_000);
    let kmax = 6usize;
    let vdense = tier.pick(10_000u64, 100_000);
    let gset: Vec<u32> = tier.pick(G_Q.to_vec(), G_T.to_vec());
    // shards: (lang, kind, lo, hi)
    let mut shards: Vec<(L, u8, u64, u64)> = vec![];
    for l in langs::ALL {
        let chunk = dense / 16;
        let mut lo = 1;
        while lo < dense {
            let hi = (lo + chunk).min(dense);
            shards.push((l, 0, lo, hi));
            lo = hi;
        }
        let mut lo = 0;
        while lo < vdense {
            let hi = (lo + 1000).min(vdense);
            shards.push((l, 2, lo, hi));
            lo = hi;
        }
        let total = (gset.len() as u64).pow(3);
        let step = (total / 8).max(1);
        let mut lo = 0;
        while lo < total {
            let hi = (lo + step).min(total);
            shards.push((l, 1, lo, hi));
            lo = hi;
        }
    }
    let mut acc = par_shards(shards, |&(l, kind, lo, hi), acc| {
        let lang = l.facade();
        let zero_std = l.zero();
        let mut one = |n: u64, v: Var, zero: &str, acc: &mut Acc| {
            if n == 0 {
                return;
            }
            let text = spell::spell(l, n, v);
            if l == L::De && text.contains("eine ") {
                return; // known finding of C01
            }
            let words = text.split(' ').count() as u64;
            for k in 0..=kmax {
                acc.states += 1;
                let zs = vec![zero; k].join(" ");
                let phrase = if k == 0 { text.clone() } else { format!("{zs} {text}") };
                let want = format!("{}{n}", "0".repeat(k));
                acc.traces += 2;
                acc.transitions += 2 * (words + k as u64);
                let got = match guard(|| text2digits(&phrase, &lang)) {
                    Ok(Ok(s)) => s,
                    Ok(Err(e)) => format!("Err({e:?})"),
                    Err(p) => p,
                };
                acc.outcome(&got);
                if got != want {
                    ctx.report(acc, Violation { lang: l.code().into(), entry: "text2digits".into(), input: phrase.clone(), threshold: None, clause: "validate(zero^k spell(n)) = '0'^k decimal(n)".into(), expected: want.clone(), observed: got });
                }
                let s = format!("xyzzy {phrase} plugh");
                let exp = format!("xyzzy {want} plugh");
                let got = match guard(|| replace_numbers_in_text(&s, &lang, 0.0)) {
                    Ok(s) => s,
                    Err(p) => p,
                };
                if got != exp {
                    ctx.report(acc, Violation { lang: l.code().into(), entry: "replace_text".into(), input: s, threshold: Some(0.0), clause: "rewrite(zero^k spell(n)) = one numeral '0'^k decimal(n)".into(), expected: exp, observed: got });
                }
            }
            // a zero after a non-zero number starts a new numeral
            acc.states += 1;
            acc.traces += 2;
            let s = format!("xyzzy {text} {zero} plugh");
            let exp = format!("xyzzy {n} 0 plugh");
            let got = match guard(|| replace_numbers_in_text(&s, &lang, 0.0)) {
                Ok(s) => s,
                Err(p) => p,
            };
            if got != exp {
                ctx.report(acc, Violation { lang: l.code().into(), entry: "replace_text".into(), input: s, threshold: Some(0.0), clause: "rewrite(spell(n) zero) = 'n 0'".into(), expected: exp, observed: got });
            }
            let phrase = format!("{text} {zero}");
            let got = match guard(|| text2digits(&phrase, &lang)) {
                Ok(Ok(s)) => format!("Ok({s})"),
                Ok(Err(_)) => "Err".to_string(),
                Err(p) => p,
            };
            if got != "Err" {
                ctx.report(acc, Violation { lang: l.code().into(), entry: "text2digits".into(), input: phrase, threshold: None, clause: "a zero after a non-zero number is never appended or dropped (not one number)".into(), expected: "Err".into(), observed: got });
            }
            if n % 4999 == 0 {
                acc.sample(json!({"lang": l.code(), "input": format!("{zero} {zero} {text}"), "expected": format!("00{n}")}));
            }
        };
        if kind == 0 {
            for n in lo..hi {
                one(n, Var::default(), zero_std, acc);
            }
        } else if kind == 2 {
            // the other zero words the language accepts (homogeneous runs)
            if l == L::En {
                for z in ["o", "nought"] {
                    for n in lo..hi {
                        one(n, Var::default(), z, acc);
                    }
                }
            }
            // accepted orthographic variants (one axis at a time) below the variant bound
            for (_, v) in spell::axes(l) {
                for n in lo..hi {
                    if spell::spell(l, n, v) != spell::spell(l, n, Var::default()) {
                        one(n, v, zero_std, acc);
                    }
                }
            }
        } else {
            let g = gset.len() as u64;
            for idx in lo..hi {
                let n = (gset[(idx / g / g % g) as usize] as u64 * 1000 + gset[(idx / g % g) as usize] as u64) * 1000 + gset[(idx % g) as usize] as u64;
                if n >= dense {
                    one(n, Var::default(), zero_std, acc);
                }
            }
        }
    });
    // lone zero
    for l in langs::ALL {
        let lang = l.facade();
        acc.states += 1;
        acc.traces += 2;
        let got = match guard(|| text2digits(l.zero(), &lang)) {
            Ok(Ok(s)) => s,
            Ok(Err(e)) => format!("Err({e:?})"),
            Err(p) => p,
        };
        if got != "0" {
            ctx.report(&mut acc, Violation { lang: l.code().into(), entry: "text2digits".into(), input: l.zero().into(), threshold: None, clause: "a lone zero is the numeral 0".into(), expected: "0".into(), observed: got });
        }
        let s = format!("xyzzy {} plugh", l.zero());
        let got = guard(|| replace_numbers_in_text(&s, &lang, 0.0)).unwrap_or_else(|p| p);
        if got != "xyzzy 0 plugh" {
            ctx.report(&mut acc, Violation { lang: l.code().into(), entry: "replace_text".into(), input: s, threshold: Some(0.0), clause: "a lone zero is the numeral 0".into(), expected: "xyzzy 0 plugh".into(), observed: got });
        }
    }
    acc.nontrivial = acc.states;
    let cov = json!({
        "exhaustive": true,
        "rule": "every (language, n, k): k spoken zeros + standard spelling of n through validator and scanner; spell(n) + zero; lone zero",
        "bounds": {"dense_n_below": dense, "single_axis_variants_n_below": vdense, "zero_aliases": "en: o, nought (n below the variant bound)", "k_max": kmax, "group_product": format!("{}^3 (n < 10^9)", gset.len())},
    });
    ctx.finish(acc, cov, vec!["standard spellings, plus each accepted orthographic variant alone below the variant bound; de numbers spelled with 'eine Million' are skipped (known finding of C01)".into()])
}
