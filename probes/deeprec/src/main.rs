//! C03, very long inputs on a small stack (dev-profile build of the library).
//! usage: deeprec-probe <tokens> <stack-KiB>
//! Runs every entry point of every language on long token runs, each call on a fresh thread with the
//! given stack. Prints one line per (language, input kind) when done; a stack overflow kills the process.
use text2num::{find_numbers, find_numbers_iter, replace_numbers_in_text, text2digits, Language, Token};

struct Tok(String);
impl Token for &Tok {
    fn text(&self) -> &str {
        &self.0
    }
    fn text_lowercase(&self) -> &str {
        &self.0
    }
}

fn main() {
    let args: Vec<String> = std::env::args().collect();
    let n: usize = args.get(1).and_then(|s| s.parse().ok()).unwrap_or(20_000);
    let stack_kib: usize = args.get(2).and_then(|s| s.parse().ok()).unwrap_or(512);
    let langs: [(&str, fn() -> Language, [&str; 4]); 7] = [
        ("en", Language::english, ["xyzzy", "one", "thousand", "and"]),
        ("fr", Language::french, ["xyzzy", "un", "mille", "et"]),
        ("es", Language::spanish, ["xyzzy", "uno", "mil", "y"]),
        ("pt", Language::portuguese, ["xyzzy", "um", "mil", "e"]),
        ("it", Language::italian, ["xyzzy", "uno", "mille", "e"]),
        ("de", Language::german, ["xyzzy", "eins", "tausend", "und"]),
        ("nl", Language::dutch, ["xyzzy", "een", "duizend", "en"]),
    ];
    let mut handles = vec![];
    for (code, mk, words) in langs {
        for w in words {
            for joiner in [" ", "-", ", "] {
                // one huge hyphenated token costs quadratic time in the word splitters: a tenth of the length
                let n = if joiner == "-" { n / 10 } else { n };
                let w = w.to_string();
                let label = w.clone();
                let h = std::thread::Builder::new()
                    .stack_size(stack_kib * 1024)
                    .spawn(move || {
                        let lang = mk();
                        let text = vec![w.as_str(); n].join(joiner);
                        let toks: Vec<Tok> = text.split(' ').map(|t| Tok(t.to_string())).collect();
                        let mut sum = 0usize;
                        sum += text2digits(&text, &lang).map(|s| s.len()).unwrap_or(0);
                        for thr in [0.0, 10.0] {
                            sum += replace_numbers_in_text(&text, &lang, thr).len();
                            sum += find_numbers(toks.iter(), &lang, thr).len();
                            sum += find_numbers_iter(toks.iter(), &lang, thr).count();
                        }
                        sum
                    })
                    .expect("spawn");
                handles.push((h, format!("{code} {label:?} x{n} joined by {joiner:?}")));
            }
        }
    }
    for (h, what) in handles {
        match h.join() {
            Ok(sum) => println!("ok {what} -> {sum}"),
            Err(_) => println!("panic {what}"),
        }
    }
    println!("done");
}
