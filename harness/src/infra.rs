//! Shared machinery: tiers, accumulators, violations, known findings, evidence, replays.
use rayon::prelude::*;
use serde_json::{json, Value};
use std::collections::hash_map::DefaultHasher;
use std::collections::{BTreeMap, HashSet};
use std::hash::{Hash, Hasher};
use std::panic::{catch_unwind, AssertUnwindSafe};
use std::time::Instant;

/// Root of the verification tree: $VERIF_ROOT, else three levels above the executable
/// (<root>/target/release/t2n-verif), else /verif.
pub fn verif_root() -> &'static str {
    static ROOT: std::sync::OnceLock<String> = std::sync::OnceLock::new();
    ROOT.get_or_init(|| {
        if let Ok(r) = std::env::var("VERIF_ROOT") {
            return r;
        }
        if let Ok(exe) = std::env::current_exe() {
            if let Some(root) = exe.parent().and_then(|p| p.parent()).and_then(|p| p.parent()) {
                if root.join("known_findings.json").exists() || root.join("harness").exists() {
                    return root.to_string_lossy().to_string();
                }
            }
        }
        "/verif".to_string()
    })
}

#[derive(Clone, Copy, PartialEq, Eq, Debug)]
pub enum Tier {
    Quick,
    Thorough,
}

impl Tier {
    pub fn name(self) -> &'static str {
        match self {
            Tier::Quick => "quick",
            Tier::Thorough => "thorough",
        }
    }
    pub fn pick<T>(self, q: T, t: T) -> T {
        match self {
            Tier::Quick => q,
            Tier::Thorough => t,
        }
    }
}

pub fn h64<T: Hash + ?Sized>(t: &T) -> u64 {
    let mut h = DefaultHasher::new();
    t.hash(&mut h);
    h.finish()
}

/// Run `f`, converting a panic into `Err(message)`.
pub fn guard<R>(f: impl FnOnce() -> R) -> Result<R, String> {
    match catch_unwind(AssertUnwindSafe(f)) {
        Ok(r) => Ok(r),
        Err(e) => {
            let msg = if let Some(s) = e.downcast_ref::<&str>() {
                s.to_string()
            } else if let Some(s) = e.downcast_ref::<String>() {
                s.clone()
            } else {
                "panic".to_string()
            };
            Err(format!("PANIC: {msg}"))
        }
    }
}

#[derive(Clone, Debug)]
pub struct Violation {
    pub lang: String,
    /// entry point / replay kind: text2digits | replace_text | find_tokens | digit_ops | other
    pub entry: String,
    /// exact input: a text, or a JSON-encoded token list / op list / schedule
    pub input: String,
    pub threshold: Option<f64>,
    pub clause: String,
    pub expected: String,
    pub observed: String,
}

impl Violation {
    pub fn key(&self) -> (usize, String, String, String, String) {
        (
            self.input.chars().count(),
            self.lang.clone(),
            self.input.clone(),
            self.entry.clone(),
            self.clause.clone(),
        )
    }
    /// a plain unit test that replays this violation without any explorer (paste into /repo/tests/)
    pub fn unit_test(&self) -> Option<String> {
        let ctor = match self.lang.as_str() {
            "en" => "english",
            "fr" => "french",
            "es" => "spanish",
            "pt" => "portuguese",
            "it" => "italian",
            "de" => "german",
            "nl" => "dutch",
            _ => return None,
        };
        let thr = match self.threshold {
            Some(t) if t.is_nan() => "f64::NAN".to_string(),
            Some(t) if t == f64::INFINITY => "f64::INFINITY".to_string(),
            Some(t) if t == f64::NEG_INFINITY => "f64::NEG_INFINITY".to_string(),
            Some(t) => format!("{t:?}"),
            None => "0.0".to_string(),
        };
        let body = match self.entry.as_str() {
            "text2digits" => {
                if self.expected.starts_with("Err") {
                    format!("assert!(text2num::text2digits({:?}, &lang).is_err());", self.input)
                } else {
                    format!("assert_eq!(text2num::text2digits({:?}, &lang).ok(), Some({:?}.to_string()));", self.input, self.expected)
                }
            }
            "replace_text" => format!("assert_eq!(text2num::replace_numbers_in_text({:?}, &lang, {thr}), {:?});", self.input, self.expected),
            _ => return None,
        };
        Some(format!("#[test]\nfn replay() {{\n    let lang = text2num::Language::{ctor}();\n    {body}\n}}"))
    }

    pub fn to_json(&self, property: &str) -> Value {
        json!({
            "unit_test": self.unit_test(),
            "property": property,
            "language": self.lang,
            "entry_point": self.entry,
            "input": self.input,
            "threshold": self.threshold.map(thr_name),
            "clause": self.clause,
            "expected": self.expected,
            "observed": self.observed,
        })
    }
}

pub fn thr_name(t: f64) -> String {
    if t.is_nan() {
        "NaN".into()
    } else if t == f64::INFINITY {
        "inf".into()
    } else if t == f64::NEG_INFINITY {
        "-inf".into()
    } else {
        format!("{t}")
    }
}

pub fn thr_parse(s: &str) -> f64 {
    match s {
        "NaN" => f64::NAN,
        "inf" => f64::INFINITY,
        "-inf" => f64::NEG_INFINITY,
        x => x.parse().unwrap_or(0.0),
    }
}

const OUTCOME_CAP: usize = 2_000_000;
const VIOL_CAP: usize = 150;
const SAMPLE_CAP: usize = 6;

/// Per-shard accumulator. Merged in shard order, so results are deterministic.
#[derive(Default)]
pub struct Acc {
    pub states: u64,
    pub transitions: u64,
    pub traces: u64,
    pub evals: u64,
    pub nontrivial: u64,
    pub outcomes: HashSet<u64>,
    pub samples: Vec<Value>,
    pub viols: Vec<Violation>,
    pub viol_count: u64,
    pub viol_per_key: BTreeMap<String, u64>,
    pub known_hits: BTreeMap<String, u64>,
    pub extra: BTreeMap<String, u64>,
}

impl Acc {
    pub fn new() -> Self {
        Self::default()
    }
    pub fn outcome<T: Hash + ?Sized>(&mut self, o: &T) {
        if self.outcomes.len() < OUTCOME_CAP {
            self.outcomes.insert(h64(o));
        }
    }
    pub fn sample(&mut self, v: Value) {
        if self.samples.len() < SAMPLE_CAP {
            self.samples.push(v);
        }
    }
    pub fn count(&mut self, key: &str, n: u64) {
        *self.extra.entry(key.to_string()).or_insert(0) += n;
    }
    fn violation(&mut self, v: Violation) {
        self.viol_count += 1;
        let k = format!("{}|{}|{}", v.lang, v.entry, v.clause);
        let c = self.viol_per_key.entry(k).or_insert(0);
        *c += 1;
        if *c <= VIOL_CAP as u64 {
            self.viols.push(v);
        }
    }
    pub fn merge(&mut self, o: Acc) {
        self.states += o.states;
        self.transitions += o.transitions;
        self.traces += o.traces;
        self.evals += o.evals;
        self.nontrivial += o.nontrivial;
        for h in o.outcomes {
            if self.outcomes.len() < OUTCOME_CAP {
                self.outcomes.insert(h);
            }
        }
        for s in o.samples {
            if self.samples.len() < SAMPLE_CAP {
                self.samples.push(s);
            }
        }
        self.viol_count += o.viol_count;
        for v in o.viols {
            let k = format!("{}|{}|{}", v.lang, v.entry, v.clause);
            let c = self.viol_per_key.entry(k).or_insert(0);
            *c += 1;
            if *c <= (VIOL_CAP * 3) as u64 {
                self.viols.push(v);
            }
        }
        for (k, n) in o.extra {
            *self.extra.entry(k).or_insert(0) += n;
        }
        for (k, n) in o.known_hits {
            *self.known_hits.entry(k).or_insert(0) += n;
        }
    }
}

/// Run `f` over the shards on all cores and merge the accumulators in shard order.
pub fn par_shards<S: Sync + Send, F>(shards: Vec<S>, f: F) -> Acc
where
    F: Fn(&S, &mut Acc) + Sync + Send,
{
    let accs: Vec<Acc> = shards
        .par_iter()
        .map(|s| {
            let mut a = Acc::new();
            f(s, &mut a);
            a
        })
        .collect();
    let mut total = Acc::new();
    for a in accs {
        total.merge(a);
    }
    total
}

#[derive(Debug)]
pub struct Known {
    pub id: String,
    pub property: String,
    pub status: String,
    pub lang: String,
    pub entry: regex::Regex,
    pub input: regex::Regex,
    pub observed: regex::Regex,
    pub clause: Option<regex::Regex>,
    pub description: String,
}

fn full(re: &str) -> regex::Regex {
    regex::Regex::new(&format!("^(?s:{re})$")).unwrap_or_else(|e| {
        eprintln!("machinery: bad regex in known_findings.json: {re}: {e}");
        std::process::exit(2)
    })
}

pub fn load_known(property: &str) -> Vec<Known> {
    let path = format!("{}/known_findings.json", verif_root());
    let txt = match std::fs::read_to_string(&path) {
        Ok(t) => t,
        Err(_) => return vec![],
    };
    let v: Value = serde_json::from_str(&txt).unwrap_or_else(|e| {
        eprintln!("machinery: known_findings.json does not parse: {e}");
        std::process::exit(2)
    });
    let mut out = vec![];
    for e in v["findings"].as_array().cloned().unwrap_or_default() {
        if e["property"].as_str() != Some(property) {
            continue;
        }
        let g = |k: &str| e[k].as_str().unwrap_or("").to_string();
        out.push(Known {
            id: g("id"),
            property: g("property"),
            status: g("status"),
            lang: g("language"),
            entry: full(e["entry_point"].as_str().unwrap_or(".*")),
            input: full(e["input"].as_str().unwrap_or(".*")),
            observed: full(e["observed"].as_str().unwrap_or(".*")),
            clause: e["clause"].as_str().map(full),
            description: g("description"),
        });
    }
    out
}

pub struct Ctx {
    pub id: &'static str,
    pub tier: Tier,
    pub seed: u64,
    pub start: Instant,
    pub known: Vec<Known>,
}

pub struct Outcome {
    pub exit: i32,
}

impl Ctx {
    pub fn new(id: &'static str, tier: Tier) -> Self {
        let seed = std::env::var("VERIF_SEED")
            .ok()
            .and_then(|s| s.parse().ok())
            .unwrap_or(0);
        Ctx {
            id,
            tier,
            seed,
            start: Instant::now(),
            known: load_known(id),
        }
    }

    fn covered_by(&self, v: &Violation) -> Option<&Known> {
        self.known.iter().find(|k| {
            k.status == "open"
                && (k.lang == "*" || k.lang == v.lang)
                && k.entry.is_match(&v.entry)
                && k.input.is_match(&v.input)
                && k.observed.is_match(&v.observed)
                && k.clause.as_ref().map_or(true, |c| c.is_match(&v.clause))
        })
    }

    /// Record a violation: absorbed by a matching open known finding, else kept.
    pub fn report(&self, acc: &mut Acc, v: Violation) {
        if let Some(k) = self.covered_by(&v) {
            *acc.known_hits.entry(k.id.clone()).or_insert(0) += 1;
        } else {
            acc.violation(v);
        }
    }

    /// Write evidence, replays, print verdict lines, return the exit code.
    pub fn finish(&self, mut acc: Acc, coverage_extra: Value, assumptions: Vec<String>) -> i32 {
        let known_hits = acc.known_hits.clone();
        let stored = acc.viols.len() as u64;
        let mut fresh: Vec<Violation> = acc.viols.drain(..).collect();
        fresh.sort_by_key(|v| v.key());
        fresh.dedup_by_key(|v| v.key());
        if let Ok(p) = std::env::var("VERIF_DUMP") {
            let mut out = String::new();
            for v in &fresh {
                out.push_str(&v.to_json(self.id).to_string());
                out.push('\n');
            }
            let _ = std::fs::write(p, out);
        }
        let truncated = acc.viol_count > stored;
        let wall = self.start.elapsed().as_secs_f64();

        let dir = format!("{}/replays/{}", verif_root(), self.id);
        let _ = std::fs::remove_dir_all(&dir); // replays of earlier runs are stale
        let mut lines = vec![];
        if !fresh.is_empty() {
            let _ = std::fs::create_dir_all(&dir);
            for v in fresh.iter().take(12) {
                let j = v.to_json(self.id);
                let name = format!("{:016x}.json", h64(&j.to_string()));
                let path = format!("{dir}/{name}");
                let _ = std::fs::write(&path, serde_json::to_string_pretty(&j).unwrap());
                lines.push((path, v.clone()));
            }
        }

        let mut cov = json!({
            "states": acc.states.max(1),
            "transitions": acc.transitions.max(1),
            "traces_validated_against_impl": acc.traces,
            "evaluations": acc.evals.max(acc.states).max(1),
            "distinct_nontrivial": acc.nontrivial,
            "distinct_observed_outcomes": acc.outcomes.len(),
            "distinct_observed_outcomes_capped": acc.outcomes.len() >= OUTCOME_CAP,
            "samples": if acc.samples.is_empty() { vec![json!("(none)")] } else { acc.samples.clone() },
            "counters": acc.extra,
            "known_finding_hits": known_hits,
            "violations_total_raw": acc.viol_count,
            "violations_list_truncated": truncated,
        });
        if let (Some(c), Some(e)) = (cov.as_object_mut(), coverage_extra.as_object()) {
            for (k, v) in e {
                c.insert(k.clone(), v.clone());
            }
        }
        let ev = json!({
            "property_id": self.id,
            "tier": self.tier.name(),
            "seed": self.seed,
            "level": "model_checking",
            "coverage": cov,
            "assumptions": assumptions,
            "wall_s": (wall * 1000.0).round() / 1000.0,
            "violations": fresh.len(),
        });
        let _ = std::fs::create_dir_all(format!("{}/evidence", verif_root()));
        let evpath = format!("{}/evidence/{}.json", verif_root(), self.id);
        if let Err(e) = std::fs::write(&evpath, serde_json::to_string_pretty(&ev).unwrap() + "\n") {
            eprintln!("machinery: cannot write {evpath}: {e}");
            return 2;
        }

        println!(
            "{} tier={} states={} transitions={} comparisons={} outcomes={} wall={:.1}s",
            self.id,
            self.tier.name(),
            acc.states,
            acc.transitions,
            acc.traces,
            acc.outcomes.len(),
            wall
        );
        for k in self.known.iter().filter(|k| k.status == "open") {
            println!(
                "KNOWN-FINDING: property={} {} [{}; matched {} reported case(s) in this run]",
                self.id,
                k.description,
                k.id,
                known_hits.get(&k.id).copied().unwrap_or(0)
            );
        }
        if fresh.is_empty() {
            println!("{} OK: property held on everything explored", self.id);
            0
        } else {
            for (path, v) in &lines {
                println!(
                    "  lang={} entry={} clause={} input={:?} expected={:?} observed={:?}",
                    v.lang, v.entry, v.clause, v.input, v.expected, v.observed
                );
                println!("VIOLATION property={} replay={}", self.id, path);
            }
            println!(
                "{} FAILED: {} distinct new violation(s){}",
                self.id,
                fresh.len(),
                if truncated { " (list truncated)" } else { "" }
            );
            1
        }
    }
}

/// All sequences of length 1..=k over `n` symbols, visited shortest first (per first symbol).
pub fn for_each_seq(n: usize, k: usize, first: usize, f: &mut dyn FnMut(&[usize])) {
    // enumerates sequences starting with `first`, lengths 1..=k, length-then-lex order
    for len in 1..=k {
        let mut idx = vec![0usize; len];
        idx[0] = first;
        loop {
            f(&idx);
            let mut p = len;
            let mut done = true;
            while p > 1 {
                p -= 1;
                idx[p] += 1;
                if idx[p] < n {
                    done = false;
                    break;
                }
                idx[p] = 0;
            }
            if done {
                break;
            }
        }
    }
}

pub fn seq_count(n: u64, k: u32) -> u64 {
    (1..=k).map(|l| n.pow(l)).sum()
}

/// Make a child process die with this one (Linux: parent-death signal), so that a check stopped by its wall
/// budget, or killed from outside, never leaves a spinning child behind.
pub fn die_with_parent(cmd: &mut std::process::Command) -> &mut std::process::Command {
    use std::os::unix::process::CommandExt;
    unsafe {
        cmd.pre_exec(|| {
            libc::prctl(libc::PR_SET_PDEATHSIG, libc::SIGKILL);
            Ok(())
        })
    }
}
