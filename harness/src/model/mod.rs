pub mod numeral;
