//! C15 — token-stream contract: lazy = batch, bounded look-ahead, hints honoured (E-SEQ with hint decorations).
use crate::explore;
use crate::infra::*;
use crate::langs::{self, L};
use crate::stream::{self, HTok, Occ};
use crate::vocab;
use serde_json::json;
use std::cell::Cell;
use text2num::find_numbers_iter;

/// A token source that announces an enormous upper bound (an open-ended stream cut by `take_while`).
struct HugeHint<'a> {
    it: std::slice::Iter<'a, HTok>,
}
impl<'a> Iterator for HugeHint<'a> {
    type Item = &'a HTok;
    fn next(&mut self) -> Option<&'a HTok> {
        self.it.next()
    }
    fn size_hint(&self) -> (usize, Option<usize>) {
        (0, Some(usize::MAX))
    }
}

struct Counting<'a> {
    it: std::slice::Iter<'a, HTok>,
    n: &'a Cell<usize>,
}
impl<'a> Iterator for Counting<'a> {
    type Item = &'a HTok;
    fn next(&mut self) -> Option<&'a HTok> {
        let x = self.it.next();
        if x.is_some() {
            self.n.set(self.n.get() + 1);
        }
        x
    }
}

/// A token as a speech recogniser delivers it: `nt_separated` is computed from the timing of the token the
/// library passes as `previous` (the documented use case), so a stale `previous` shows up as a spurious pause.
struct TTok {
    text: String,
    lower: String,
    start: u64,
    end: u64,
    nan: bool,
}
impl text2num::Token for &TTok {
    fn text(&self) -> &str {
        &self.text
    }
    fn text_lowercase(&self) -> &str {
        &self.lower
    }
    fn nt_separated(&self, previous: &Self) -> bool {
        self.start.saturating_sub(previous.end) > 100
    }
    fn not_a_number_part(&self) -> bool {
        self.nan
    }
}
/// words last 300 ms, 20 ms apart; a '~' token starts after a 500 ms pause
fn timed(toks: &[HTok]) -> Vec<TTok> {
    let mut t = 0u64;
    toks.iter()
        .map(|h| {
            t += if h.sep { 500 } else { 20 };
            let start = t;
            t += 300;
            TTok { text: h.text.clone(), lower: h.lower.clone(), start, end: t, nan: h.nan }
        })
        .collect()
}

fn skipped(t: &HTok) -> bool {
    stream::is_ws(&t.text) || t.text == "-"
}

fn one_stream(ctx: &Ctx, acc: &mut Acc, l: L, lang: &text2num::Language, syms: &[&str], thrs: &[f64]) {
    acc.states += 1;
    let toks: Vec<HTok> = stream::htoks(syms);
    // hints are only meaningful on tokens the scanner looks at
    if toks.iter().any(|t| (t.sep || t.nan) && skipped(t)) {
        return;
    }
    let input = || serde_json::to_string(&syms).unwrap();
    let mut rep = |acc: &mut Acc, thr: f64, clause: &str, expected: String, observed: String| {
        ctx.report(acc, Violation { lang: l.code().into(), entry: "find_tokens".into(), input: input(), threshold: Some(thr), clause: clause.into(), expected, observed });
    };
    let r0 = match guard(|| stream::find(&toks, lang, 0.0)) {
        Ok(x) => x,
        Err(_) => return,
    };
    if r0.iter().any(|o| o.end > toks.len() || o.start >= o.end) {
        return;
    }
    if !r0.is_empty() {
        acc.nontrivial += 1;
    }
    for &thr in thrs {
        acc.transitions += 2 * toks.len() as u64;
        let batch = match guard(|| stream::find(&toks, lang, thr)) {
            Ok(x) => x,
            Err(_) => continue,
        };
        acc.outcome(&batch);
        // (1)+(2): lazy iterator
        acc.traces += 1;
        let n = Cell::new(0usize);
        let res = guard(|| {
            let mut it = find_numbers_iter(Counting { it: toks.iter(), n: &n }, lang, thr);
            let before = n.get();
            let mut got: Vec<(Occ, usize)> = vec![];
            while let Some(o) = it.next() {
                got.push((Occ::of(&o), n.get()));
                if got.len() > toks.len() + 2 {
                    break;
                }
            }
            let extra = [it.next().is_none(), it.next().is_none(), it.next().is_none()];
            (before, got, extra, n.get())
        });
        let Ok((before, got, extra, _pulled)) = res else { continue };
        let lazy: Vec<Occ> = got.iter().map(|(o, _)| o.clone()).collect();
        if lazy != batch {
            rep(acc, thr, "the lazy iterator yields exactly the occurrences of the batch search", stream::show_occs(&batch), stream::show_occs(&lazy));
        }
        if extra != [true, true, true] {
            rep(acc, thr, "the lazy iterator ends (None) and stays ended", "None, None, None".into(), format!("{extra:?} (true = None)"));
        }
        if before != 0 {
            rep(acc, thr, "nothing is read before the first request", "0 tokens pulled".into(), format!("{before} tokens pulled"));
        }
        for (o, pulled) in &got {
            // position of this number in the threshold-0 list
            if let Some(j) = r0.iter().position(|x| x.start == o.start && x.end == o.end) {
                let bound = if j + 2 < r0.len() { r0[j + 2].end } else { toks.len() };
                if *pulled > bound {
                    rep(acc, thr, "look-ahead never goes beyond the second number after the one returned", format!("<= {bound} tokens pulled when {} is returned", o.show()), format!("{pulled} tokens pulled"));
                }
            }
        }
        // (2a) the lazy iterator driven by a standard adaptor (collect asks for size hints) over a source that
        // announces an enormous upper bound: same occurrences, no panic
        if toks.len() <= 3 {
            acc.traces += 1;
            match guard(|| find_numbers_iter(HugeHint { it: toks.iter() }, lang, thr).collect::<Vec<_>>().iter().map(Occ::of).collect::<Vec<_>>()) {
                Ok(got) => {
                    if got != batch {
                        rep(acc, thr, "the lazy iterator collected through std adaptors yields the occurrences of the batch search", stream::show_occs(&batch), stream::show_occs(&got));
                    }
                }
                Err(p) => rep(acc, thr, "the lazy iterator can be collected (size hints asked) over a source with a huge announced length", "a list".into(), p),
            }
        }
        // (2b) the same stream delivered with timings instead of flags gives the same occurrences
        // (only when no token is one the scanner skips: the pause is then always measured against the
        // immediate predecessor)
        if !toks.iter().any(skipped) {
            acc.traces += 1;
            let tt = timed(&toks);
            if let Ok(got) = guard(|| text2num::find_numbers(tt.iter(), lang, thr).iter().map(Occ::of).collect::<Vec<_>>()) {
                if got != batch {
                    rep(acc, thr, "hints computed from the predecessor the library passes (timings) give the same occurrences as the same hints given as flags", stream::show_occs(&batch), stream::show_occs(&got));
                }
            }
        }
        // (3) separated tokens
        for (i, t) in toks.iter().enumerate() {
            if t.sep {
                // nearest predecessor the scanner looks at
                let pred = (0..i).rev().find(|&j| !skipped(&toks[j]));
                if let Some(p) = pred {
                    if let Some(o) = batch.iter().find(|o| o.start <= p && i < o.end) {
                        rep(acc, thr, "a token unrelated to its predecessor is never in the same occurrence as that predecessor", format!("no occurrence covering tokens #{p} and #{i}"), o.show());
                    }
                }
                // equals the stream with a comma spoken between them
                acc.traces += 1;
                let mut with_comma: Vec<HTok> = Vec::with_capacity(toks.len() + 1);
                for (k, x) in toks.iter().enumerate() {
                    if k == i {
                        with_comma.push(HTok::new(usize::MAX, ","));
                        with_comma.push(HTok { sep: false, ..x.clone() });
                    } else {
                        with_comma.push(x.clone());
                    }
                }
                if let Ok(c) = guard(|| stream::find(&with_comma, lang, thr)) {
                    let shifted: Vec<Occ> = c
                        .into_iter()
                        .map(|mut o| {
                            if o.start > i {
                                o.start -= 1
                            }
                            if o.end > i {
                                o.end -= 1
                            }
                            o
                        })
                        .collect();
                    if shifted != batch {
                        rep(acc, thr, "a separated token behaves exactly as if a comma had been spoken before it", stream::show_occs(&shifted), stream::show_occs(&batch));
                    }
                }
            }
            if t.nan {
                if let Some(o) = batch.iter().find(|o| o.start <= i && i < o.end) {
                    rep(acc, thr, "a token that is 'not a number part' is never inside an occurrence", format!("token #{i} outside all occurrences"), o.show());
                }
            }
        }
    }
}

pub fn alphabet(l: L, nwords: usize) -> Vec<String> {
    let c = vocab::cls(l);
    let mut words = vec![c.one, c.tens, c.unit, c.ordinary, c.hundred, c.sep, c.small_ord, c.conj, ",".to_string(), c.zero, c.linking, c.thousand, c.large_ord, ".".to_string(), c.teen, c.unit2];
    words.dedup();
    words.truncate(nwords);
    let mut out = vec![];
    for w in &words {
        out.push(w.clone());
    }
    for w in &words {
        out.push(format!("~{w}"));
    }
    for w in &words {
        out.push(format!("!{w}"));
    }
    out
}

pub fn run(tier: Tier) -> i32 {
    let ctx = Ctx::new("C15", tier);
    let (nw, k, nw2, k2) = tier.pick((14usize, 3usize, 9usize, 4usize), (13, 4, 7, 5));
    let kla = tier.pick(7usize, 8usize);
    let rmax = tier.pick(24usize, 120usize);
    let thrs_wide: Vec<f64> = vec![0.0, 10.0, 5.0, f64::NAN];
    let thrs_deep: Vec<f64> = vec![0.0, 10.0];
    let mut total = Acc::new();
    let mut alphas = vec![];
    for l in langs::ALL {
        let lang = l.facade();
        let a = alphabet(l, nw);
        let d = alphabet(l, nw2);
        alphas.push(json!({"lang": l.code(), "wide": a.len(), "deep": d.len(), "words": a.iter().take(nw).collect::<Vec<_>>()}));
        total.merge(explore::all_sequences2(&a, k, |syms, acc| one_stream(&ctx, acc, l, &lang, syms, &thrs_wide)));
        total.merge(explore::all_sequences2(&d, k2, |syms, acc| {
            if syms.len() > k {
                one_stream(&ctx, acc, l, &lang, syms, &thrs_deep)
            }
        }));
        // look-ahead stage: long streams over the tokens that can delay a result (numbers, flagged tokens,
        // linking words, punctuation, ordinary words)
        let c = vocab::cls(l);
        let la: Vec<String> = vec![c.one.clone(), c.tens.clone(), c.ordinary.clone(), format!("!{}", c.ordinary), ",".to_string(), c.linking.clone(), format!("~{}", c.one)];
        total.merge(explore::all_sequences2(&la, kla, |syms, acc| {
            if syms.len() > k2 {
                one_stream(&ctx, acc, l, &lang, syms, &thrs_deep)
            }
        }));
        // function words (articles, half, dozen ...) and unknown source literals with hundred, one and a comma, each
        // plain, '~' or '!', depth 3
        {
            let mut base: Vec<String> = vec![c.hundred.clone(), c.one.clone(), ",".to_string()];
            for w in vocab::function_words(l).iter().map(|x| x.to_string()).chain(vocab::new_source_literals(l).into_iter().filter(|w| !w.contains(' '))) {
                if !base.contains(&w) {
                    base.push(w);
                }
            }
            let mut fa: Vec<String> = base.clone();
            fa.extend(base.iter().map(|w| format!("~{w}")));
            fa.extend(base.iter().map(|w| format!("!{w}")));
            total.merge(explore::all_sequences2(&fa, 3, |syms, acc| {
                if syms.iter().any(|s| s.len() > 1 && (s.starts_with('~') || s.starts_with('!'))) {
                    one_stream(&ctx, acc, l, &lang, syms, &thrs_deep)
                }
            }));
        }
        // tokens the scanner skips (a lone hyphen, a blank) between hinted tokens: the hint still refers to the nearest
        // token the scanner looks at
        {
            let sk: Vec<String> = vec![c.tens.clone(), c.unit.clone(), format!("~{}", c.unit), format!("~{}", c.tens), "-".to_string(), " ".to_string(), format!("!{}", c.unit), ",".to_string(), c.hundred.clone(), format!("~{}", c.hundred)];
            total.merge(explore::all_sequences2(&sk, 4, |syms, acc| {
                if syms.iter().any(|s| *s == "-" || *s == " ") && syms.iter().any(|s| s.len() > 1 && (s.starts_with('~') || s.starts_with('!'))) {
                    one_stream(&ctx, acc, l, &lang, syms, &thrs_deep)
                }
            }));
        }
        // long streams: every pattern of <= 3 of those symbols repeated r times
        total.merge(explore::all_repetitions(&la, 3, 2..=rmax, |syms, acc| one_stream(&ctx, acc, l, &lang, syms, &thrs_deep)));
        total.sample(json!({"lang": l.code(), "stream": [a[0], a[nw + 1], a[2 * nw + 2]]}));
    }
    let cov = json!({
        "exhaustive": true,
        "rule": "every token stream of length <= k where each token is plain, '~' (unrelated to its predecessor) or '!' (not a number part); lazy iterator compared with batch search, pulls on the underlying stream counted, '~' compared with an inserted comma; non-trivial = streams with at least one number",
        "bounds": {"wide_words": nw, "wide_depth": k, "deep_words": nw2, "deep_depth": k2, "decorations": 3, "skipped_token_stage": "tens, unit, hundred, ~unit, ~tens, ~hundred, !unit, lone hyphen, blank, comma; depth 4", "lookahead_symbols": 7, "lookahead_depth": kla, "long_streams": {"pattern_depth": 3, "repetitions_up_to": rmax}},
        "thresholds_wide": thrs_wide.iter().map(|t| thr_name(*t)).collect::<Vec<_>>(),
        "thresholds_deep": thrs_deep.iter().map(|t| thr_name(*t)).collect::<Vec<_>>(),
        "alphabets": alphas,
    });
    ctx.finish(total, cov, vec![
        "hints are only placed on tokens the scanner looks at (not on whitespace-only or lone '-' tokens, which it skips before reading any hint)".into(),
        "look-ahead bound: when the j-th number of the threshold-0 list is returned, at most the tokens up to the end of number j+2 (or the whole stream) have been pulled".into(),
    ])
}
