//! C03 — totality (E-SEQ at character and atom level, in child processes).
use crate::infra::*;
use crate::langs::{self, L};
use crate::stream::{self, HTok};
use crate::vocab;
use rayon::prelude::*;
use serde_json::{json, Value};
use std::io::Write;
use std::process::{Command, Stdio};
use std::time::{Duration, Instant};
use text2num::{find_numbers, find_numbers_iter, get_interpreter_for, replace_numbers_in_stream, replace_numbers_in_text, text2digits};

pub const CHARS: [char; 21] = ['o', 'n', 'e', 'z', 't', '-', '\'', '.', ',', ' ', '\n', 'é', '\u{301}', '\u{a0}', 'İ', '1', '三', '😀', 'ẞ', '\u{2019}', '\r'];
pub const THRS: [f64; 6] = [0.0, 10.0, -1.0, f64::INFINITY, f64::NEG_INFINITY, f64::NAN];

const T_EXTREME: [f64; 2] = [0.0, f64::NAN];
const T_B: [f64; 3] = [0.0, 10.0, f64::NAN];
const T_C: [f64; 2] = [0.0, 10.0];

struct Job<'a> {
    l: L,
    lang: &'a text2num::Language,
    thrs: &'a [f64],
    trace: Option<std::fs::File>,
    states: u64,
    transitions: u64,
    traces: u64,
    outcomes: std::collections::HashSet<u64>,
    viols: Vec<Value>,
    sample: Option<String>,
}

impl<'a> Job<'a> {
    fn viol(&mut self, entry: &str, input: &str, thr: Option<f64>, clause: &str, expected: &str, observed: &str) {
        if self.viols.len() < 200 {
            self.viols.push(json!({"lang": self.l.code(), "entry": entry, "input": input, "thr": thr.map(thr_name), "clause": clause, "expected": expected, "observed": observed}));
        }
    }

    fn one(&mut self, s: &str, with_lookup: bool) {
        mark(s);
        if let Some(f) = self.trace.as_mut() {
            let _ = writeln!(f, "{}", serde_json::to_string(s).unwrap());
            let _ = f.flush();
        }
        self.states += 1;
        if self.sample.is_none() && self.states == 4321 {
            self.sample = Some(s.to_string());
        }
        let lang = self.lang;
        // validator
        self.transitions += 1;
        self.traces += 1;
        let r = guard(|| text2digits(s, lang));
        match &r {
            Err(p) => {
                let p = p.clone();
                self.viol("text2digits", s, None, "returns (no panic)", "Ok or Err", &p)
            }
            Ok(Ok(d)) => {
                self.outcomes.insert(h64(d));
                if d.is_empty() || !s.chars().any(|c| c.is_alphanumeric()) {
                    let d = d.clone();
                    self.viol("text2digits", s, None, "text that is not a number reports an error", "Err", &format!("Ok({d:?})"))
                }
            }
            Ok(Err(e)) => {
                self.outcomes.insert(h64(&format!("{e:?}")));
            }
        }
        let thrs = self.thrs;
        for &t in thrs {
            self.transitions += 4;
            self.traces += 4;
            let r = guard(|| replace_numbers_in_text(s, lang, t));
            match &r {
                Err(p) => {
                    let p = p.clone();
                    self.viol("replace_text", s, Some(t), "returns (no panic)", "a String", &p)
                }
                Ok(o) => {
                    self.outcomes.insert(h64(o));
                }
            }
            let r = guard(|| {
                let toks = stream::real_tokens(s, lang);
                let a = find_numbers(toks.iter(), lang, t).len();
                let b = find_numbers_iter(toks.iter(), lang, t).count();
                (a, b)
            });
            if let Err(p) = &r {
                let p = p.clone();
                self.viol("find_numbers", s, Some(t), "returns (no panic)", "a list", &p)
            }
            let r = guard(|| {
                let toks: Vec<HTok> = stream::htoks_of_text(s, lang);
                replace_numbers_in_stream(toks, lang, t).len()
            });
            if let Err(p) = &r {
                let p = p.clone();
                self.viol("replace_stream", s, Some(t), "returns (no panic)", "a Vec", &p)
            }
        }
        if with_lookup {
            self.transitions += 1;
            self.traces += 1;
            if let Err(p) = guard(|| get_interpreter_for(s).is_some()) {
                self.viol("get_interpreter_for", s, None, "returns (no panic)", "Some or None", &p)
            }
        }
    }
}

impl<'a> Job<'a> {
    fn stream(&mut self, syms: &[&str]) {
        mark(&serde_json::to_string(syms).unwrap_or_default());
        self.states += 1;
        let toks = stream::htoks(syms);
        let lang = self.lang;
        for t in [0.0, 10.0, f64::NAN] {
            self.transitions += 3;
            self.traces += 3;
            let r = guard(|| {
                let a = find_numbers(toks.iter(), lang, t).len();
                let b = find_numbers_iter(toks.iter(), lang, t).count();
                let c = replace_numbers_in_stream(toks.clone(), lang, t).len();
                (a, b, c)
            });
            match r {
                Ok(x) => {
                    self.outcomes.insert(h64(&x));
                }
                Err(p) => {
                    let input = serde_json::to_string(syms).unwrap();
                    self.viol("find_tokens", &input, Some(t), "returns (no panic)", "a list", &p)
                }
            }
        }
    }
}

/// progress of the child (inputs started) and the input being processed, for the child's own stall watchdog
static PROGRESS: std::sync::atomic::AtomicU64 = std::sync::atomic::AtomicU64::new(0);
static CURRENT: std::sync::Mutex<String> = std::sync::Mutex::new(String::new());
const STALL_SECS: u64 = 20;
fn mark(input: &str) {
    PROGRESS.fetch_add(1, std::sync::atomic::Ordering::Relaxed);
    if let Ok(mut c) = CURRENT.lock() {
        c.clear();
        c.push_str(input);
    }
}

fn atoms_b(l: L) -> Vec<String> {
    let mut a = vocab::sigma_full(l);
    for x in ["", "-", "--", "-a", "a-"] {
        if !a.iter().any(|y| y == x) {
            a.push(x.to_string());
        }
    }
    a
}

fn long_inputs(l: L, n: usize) -> Vec<String> {
    let c = vocab::cls(l);
    let mut atoms: Vec<String> = vec![c.one.clone(), c.unit, c.tens, c.hundred.clone(), c.thousand, c.million, c.milliard, c.zero, c.conj, c.sep, c.small_ord, c.ordinary];
    if let Some(x) = c.compound {
        atoms.push(x);
    }
    let longest = vocab::number_words(l).into_iter().max_by_key(|w| w.chars().count()).unwrap_or_default();
    atoms.push(longest);
    for x in ["-", "'", ".", ",", "é", "e\u{301}", "\u{a0}", "İ", "1", "o"] {
        atoms.push(x.to_string());
    }
    let mut out = vec![];
    // decimals and leading-zero runs of every length up to 60 digits (values beyond u64, u128 and f64 precision)
    {
        let c = vocab::cls(l);
        let big = crate::spell::spell(l, 999_999_999_999, crate::spell::Var::default());
        for int in [c.one.as_str(), big.as_str(), c.zero.as_str()] {
            for d in [c.unit2.as_str(), c.one.as_str(), c.zero.as_str()] {
                let mut s = format!("{int} {}", l.sep());
                let mut z = String::new();
                for k in 1..=60 {
                    s.push(' ');
                    s.push_str(d);
                    out.push(s.clone());
                    if k % 6 == 0 {
                        out.push(format!("{s} {}", c.small_ord));
                    }
                    if !z.is_empty() {
                        z.push(' ');
                    }
                    z.push_str(c.zero.as_str());
                    out.push(format!("{z} {d}"));
                }
            }
        }
    }
    for a in &atoms {
        for j in ["", " ", "-"] {
            let mut s = String::with_capacity((a.len() + 1) * n);
            for i in 0..n {
                if i > 0 {
                    s.push_str(j);
                }
                s.push_str(a);
            }
            out.push(s);
        }
    }
    out
}

/// Build (dev profile) and run `probes/deeprec`. Ok((lines, None)) = all calls returned;
/// Ok((_, Some(what))) = the probe died or a call panicked; Err = the probe could not be built or started.
pub fn deep_recursion_probe(n: usize, stack_kib: usize) -> Result<(usize, Option<String>), String> {
    use std::process::{Command, Stdio};
    let root = verif_root();
    let target = format!("{root}/target/deeprec");
    let b = Command::new("cargo")
        .args(["build", "--offline", "--quiet", "--target-dir", &target])
        .current_dir(format!("{root}/probes/deeprec"))
        .env("CARGO_NET_OFFLINE", "true")
        .stdin(Stdio::null())
        .output()
        .map_err(|e| format!("cannot run cargo for probes/deeprec: {e}"))?;
    if !b.status.success() {
        let err = String::from_utf8_lossy(&b.stderr);
        return Err(format!("probes/deeprec failed to build:\n{}", err.lines().filter(|l| l.starts_with("error")).take(10).collect::<Vec<_>>().join("\n")));
    }
    // the probe gets a wall limit of its own: a call that never returns there must not hang the check
    let mut probe_cmd = Command::new(format!("{target}/debug/deeprec-probe"));
    die_with_parent(&mut probe_cmd);
    let mut child = probe_cmd
        .args([n.to_string(), stack_kib.to_string()])
        .stdin(Stdio::null())
        .stdout(Stdio::piped())
        .stderr(Stdio::piped())
        .spawn()
        .map_err(|e| format!("cannot start deeprec-probe: {e}"))?;
    let (mut so, mut se) = (child.stdout.take().unwrap(), child.stderr.take().unwrap());
    let r1 = std::thread::spawn(move || {
        let mut s = Vec::new();
        let _ = std::io::Read::read_to_end(&mut so, &mut s);
        s
    });
    let r2 = std::thread::spawn(move || {
        let mut s = Vec::new();
        let _ = std::io::Read::read_to_end(&mut se, &mut s);
        s
    });
    let limit = Duration::from_secs(if n <= 12_000 { 180 } else { 900 });
    let start = Instant::now();
    let status = loop {
        match child.try_wait() {
            Ok(Some(st)) => break Some(st),
            Ok(None) => {}
            Err(e) => return Err(format!("waiting for deeprec-probe: {e}")),
        }
        if start.elapsed() > limit {
            let _ = child.kill();
            let _ = child.wait();
            break None;
        }
        std::thread::sleep(Duration::from_millis(50));
    };
    let (stdout, stderr) = (r1.join().unwrap_or_default(), r2.join().unwrap_or_default());
    struct Out {
        stdout: Vec<u8>,
        stderr: Vec<u8>,
        status: Option<std::process::ExitStatus>,
    }
    let o = Out { stdout, stderr, status };
    if o.status.is_none() {
        let out = String::from_utf8_lossy(&o.stdout);
        let lines = out.lines().filter(|l| l.starts_with("ok ")).count();
        let last = out.lines().last().unwrap_or("").to_string();
        return Ok((lines, Some(format!("the probe did not finish within {} s (a call that does not return); last line: {last}", limit.as_secs()))));
    }
    let status = o.status.unwrap();
    let out = String::from_utf8_lossy(&o.stdout);
    let err = String::from_utf8_lossy(&o.stderr);
    let lines = out.lines().filter(|l| l.starts_with("ok ")).count();
    if let Some(p) = out.lines().find(|l| l.starts_with("panic ")) {
        return Ok((lines, Some(format!("a call panicked in the dev-profile build: {p}"))));
    }
    if !status.success() || !out.lines().any(|l| l == "done") {
        let why = err.lines().find(|l| l.contains("overflow") || l.contains("abort") || l.contains("panicked")).unwrap_or("no diagnostic").to_string();
        return Ok((lines, Some(format!("the probe process died ({status}): {why}"))));
    }
    Ok((lines, None))
}

/// child entry point: enumerate one shard, print results as JSON lines
pub fn child(args: &[String]) -> i32 {
    let part = args[0].as_str();
    let l = L::from_code(&args[1]).unwrap();
    let shard: usize = args[2].parse().unwrap();
    let nshards: usize = args[3].parse().unwrap();
    let tier = if args[4] == "thorough" { Tier::Thorough } else { Tier::Quick };
    let trace = args.get(5).map(|p| std::fs::File::create(p).unwrap());
    // the child watches itself: no new input started for STALL_SECS means the current one does not terminate
    std::thread::spawn(|| {
        let mut last = (0u64, Instant::now());
        loop {
            std::thread::sleep(Duration::from_millis(250));
            let p = PROGRESS.load(std::sync::atomic::Ordering::Relaxed);
            if p != last.0 {
                last = (p, Instant::now());
            } else if p > 0 && last.1.elapsed() > Duration::from_secs(STALL_SECS) {
                let cur = CURRENT.lock().map(|c| c.clone()).unwrap_or_default();
                println!("{}", json!({"stalled": cur}));
                std::process::exit(3);
            }
        }
    });
    let facade = l.facade();
    let mut job = Job { l, lang: &facade, thrs: &THRS, trace, states: 0, transitions: 0, traces: 0, outcomes: Default::default(), viols: vec![], sample: None };
    match part {
        "a" => {
            let k = tier.pick(4usize, 5);
            let n = CHARS.len();
            if shard == 0 {
                job.one("", l == L::En);
            }
            let mut buf = String::new();
            for first in 0..n {
                if first % nshards != shard {
                    continue;
                }
                for_each_seq(n, k, first, &mut |idx| {
                    buf.clear();
                    for &i in idx {
                        buf.push(CHARS[i]);
                    }
                    let s = buf.clone();
                    job.one(&s, l == L::En);
                });
            }
            if tier == Tier::Thorough {
                // length 6 with the two extreme thresholds only
                job.thrs = &T_EXTREME;
                for first in 0..n {
                    if first % nshards != shard {
                        continue;
                    }
                    let mut idx = [first, 0, 0, 0, 0, 0];
                    loop {
                        buf.clear();
                        for &i in &idx {
                            buf.push(CHARS[i]);
                        }
                        let s = buf.clone();
                        job.one(&s, false);
                        let mut p = 6;
                        let mut done = true;
                        while p > 1 {
                            p -= 1;
                            idx[p] += 1;
                            if idx[p] < n {
                                done = false;
                                break;
                            }
                            idx[p] = 0;
                        }
                        if done {
                            break;
                        }
                    }
                }
            }
        }
        "b" => {
            let atoms = atoms_b(l);
            let k = tier.pick(2usize, 3);
            let n = atoms.len();
            job.thrs = &T_B;
            for first in 0..n {
                if first % nshards != shard {
                    continue;
                }
                for_each_seq(n, k, first, &mut |idx| {
                    for j in [" ", "-"] {
                        if idx.len() == 1 && j == "-" {
                            continue;
                        }
                        let s = idx.iter().map(|&i| atoms[i].as_str()).collect::<Vec<_>>().join(j);
                        job.one(&s, false);
                    }
                });
            }
        }
        "d" => {
            // token streams with hints ('~' unrelated to its predecessor, '!' not a number part) through the
            // three token-stream entry points
            let c = vocab::cls(l);
            let mut words: Vec<String> = vec![c.one, c.tens, c.conj, c.sep, c.hundred, c.small_ord, c.zero, c.ordinary, c.unit, c.thousand, ",".to_string(), c.teen];
            words.extend(vocab::sigma_full(l).into_iter().filter(|w| w.ends_with('-') || w.starts_with('-') || w.ends_with("und") || w.ends_with("en") && w.len() <= 5).take(3));
            let mut syms: Vec<String> = words.clone();
            syms.extend(words.iter().map(|w| format!("~{w}")));
            syms.extend(words.iter().map(|w| format!("!{w}")));
            let n = syms.len();
            let k = tier.pick(3usize, 4);
            for first in 0..n {
                if first % nshards != shard {
                    continue;
                }
                for_each_seq(n, k, first, &mut |idx| {
                    let refs: Vec<&str> = idx.iter().map(|&i| syms[i].as_str()).collect();
                    job.stream(&refs);
                });
            }
        }
        "h" => {
            // word-like string literals of the CURRENT source of this language's module that no alphabet knows:
            // every text of <= 4 words over {the literal, an ordinary word, one, unit, tens, the ambiguous words}
            // that contains the literal
            let c = vocab::cls(l);
            for w in vocab::new_source_literals(l) {
                let mut a: Vec<String> = vec![w.clone(), c.ordinary.clone(), c.one.clone(), c.unit.clone(), c.tens.clone()];
                match l {
                    L::En => a.push("o".into()),
                    L::Fr => a.extend(["neuf", "le"].iter().map(|x| x.to_string())),
                    _ => {}
                }
                let n = a.len();
                let mut buf = String::new();
                for first in 0..n {
                    for_each_seq(n, 4, first, &mut |idx| {
                        if !idx.contains(&0) {
                            return;
                        }
                        buf.clear();
                        for (j, &i) in idx.iter().enumerate() {
                            if j > 0 {
                                buf.push(' ');
                            }
                            buf.push_str(&a[i]);
                        }
                        job.one(&buf, false);
                        // capitalised first word (sentence start)
                        let mut cs = buf.chars();
                        if let Some(f0) = cs.next() {
                            let cap: String = f0.to_uppercase().collect::<String>() + cs.as_str();
                            if cap != buf {
                                job.one(&cap, false);
                            }
                        }
                    });
                }
            }
        }
        "i" => {
            // digit-like tokens among number words (a recogniser hands over figures, superscripts, fractions, digits
            // of other scripts): every text of <= 3 tokens over 9 class words + 16 digit-like tokens that contains one
            // of the latter, and of 4 tokens over 4 words + 8 of them
            let c = vocab::cls(l);
            let exotic: Vec<String> = ["3", "0", "\u{0663}", "\u{b2}", "\u{bd}", "\u{2167}", "\u{2460}", "\u{ff13}", "\u{0969}", "\u{4e09}", "\u{1d7d1}", "1e5", "0x1F", "3.5", "1\u{2044}2", "12\u{b2}"].iter().map(|x| x.to_string()).collect();
            let words: Vec<String> = vec![c.one.clone(), l.sep().to_string(), c.ordinary.clone(), c.hundred.clone(), c.unit.clone(), c.conj.clone(), c.tens.clone(), c.zero.clone(), c.small_ord.clone()];
            for (nw, ne, k) in [(9usize, 16usize, 3usize), (4, 8, 4)] {
                let mut a: Vec<String> = exotic.iter().take(ne).cloned().collect();
                a.extend(words.iter().take(nw).cloned());
                let n = a.len();
                let mut buf = String::new();
                for first in 0..n {
                    if first % nshards != shard {
                        continue;
                    }
                    for_each_seq(n, k, first, &mut |idx| {
                        if !idx.iter().any(|&i| i < ne) || (k == 4 && idx.len() < 4) {
                            return;
                        }
                        buf.clear();
                        for (j, &i) in idx.iter().enumerate() {
                            if j > 0 {
                                buf.push(' ');
                            }
                            buf.push_str(&a[i]);
                        }
                        job.one(&buf, false);
                    });
                }
            }
        }
        "j" => {
            // word sequences: every text of <= k words over the first 16 class symbols (one, unit, tens, ordinary, zero,
            // hundred, conjunction, comma, ten, teen, thousand, linking, small ordinal, separator, full stop, second
            // unit), and one word deeper over the first 10
            let cls: Vec<String> = vocab::sigma_cls(l).into_iter().take(16).collect();
            let (k_wide, k_deep) = tier.pick((4usize, 5usize), (5, 6));
            job.thrs = &T_B;
            for (a, k, min_len) in [(&cls[..], k_wide, 1usize), (&cls[..10], k_deep, k_deep)] {
                let n = a.len();
                let mut buf = String::new();
                for first in 0..n {
                    if first % nshards != shard {
                        continue;
                    }
                    for_each_seq(n, k, first, &mut |idx| {
                        if idx.len() < min_len {
                            return;
                        }
                        buf.clear();
                        for (j, &i) in idx.iter().enumerate() {
                            if j > 0 {
                                buf.push(' ');
                            }
                            buf.push_str(&a[i]);
                        }
                        job.one(&buf, false);
                    });
                }
            }
            // leading-zero runs of every length up to 12 in front of every word of the full vocabulary, alone and
            // followed by a unit
            if shard == 0 {
                let c = vocab::cls(l);
                let mut z = String::new();
                for _ in 1..=12 {
                    z.push_str(&c.zero);
                    z.push(' ');
                    for w in vocab::sigma_full(l) {
                        job.one(&format!("{z}{w}"), false);
                        job.one(&format!("{z}{w} {}", c.unit), false);
                    }
                }
            }
        }
        "g" => {
            // very large numbers: every sequence of <= k words over nine, tens, hundred, one and the scale words
            // (values beyond u64 / u128 / f64 precision), at every threshold of the list
            let big = vocab::big_number_words(l, &facade);
            let n = big.len();
            let k = tier.pick(4usize, 5);
            let mut buf = String::new();
            for first in 0..n {
                if first % nshards != shard {
                    continue;
                }
                for_each_seq(n, k, first, &mut |idx| {
                    buf.clear();
                    for (j, &i) in idx.iter().enumerate() {
                        if j > 0 {
                            buf.push(' ');
                        }
                        buf.push_str(&big[i]);
                    }
                    job.one(&buf, false);
                });
            }
        }
        _ => {
            job.thrs = &T_C;
            for (i, s) in long_inputs(l, tier.pick(3000, 20_000)).iter().enumerate() {
                if i % nshards == shard {
                    job.one(s, false);
                }
            }
        }
    }
    println!("{}", json!({"stat": [job.states, job.transitions, job.traces], "outcomes": job.outcomes.iter().collect::<Vec<_>>(), "sample": job.sample}));
    for v in &job.viols {
        println!("{}", json!({"viol": v}));
    }
    0
}

enum ChildEnd {
    /// the child stopped itself: this input made no progress for STALL_SECS
    Stalled(String),
    Done(String),
    Crashed(String),
    TimedOut,
}

fn run_child(exe: &str, args: &[String], limit: Duration, trace: Option<&str>, stall: Option<Duration>) -> ChildEnd {
    let mut cmd = Command::new(exe);
    die_with_parent(&mut cmd);
    cmd.arg("c03-child").args(args);
    if let Some(t) = trace {
        cmd.arg(t);
    }
    cmd.stdout(Stdio::piped()).stderr(Stdio::null()).stdin(Stdio::null());
    cmd.env("RAYON_NUM_THREADS", "1");
    let mut ch = match cmd.spawn() {
        Ok(c) => c,
        Err(e) => return ChildEnd::Crashed(format!("spawn failed: {e}")),
    };
    let mut out = ch.stdout.take().unwrap();
    let reader = std::thread::spawn(move || {
        let mut s = String::new();
        let _ = std::io::Read::read_to_string(&mut out, &mut s);
        s
    });
    let start = Instant::now();
    let mut last_trace = (String::new(), Instant::now());
    loop {
        match ch.try_wait() {
            Ok(Some(st)) => {
                let s = reader.join().unwrap_or_default();
                if st.code() == Some(3) {
                    if let Some(v) = s.lines().filter_map(|l| serde_json::from_str::<Value>(l).ok()).find_map(|v| v.get("stalled").and_then(|x| x.as_str()).map(|x| x.to_string())) {
                        return ChildEnd::Stalled(v);
                    }
                }
                return if st.success() { ChildEnd::Done(s) } else { ChildEnd::Crashed(format!("{st}")) };
            }
            Ok(None) => {}
            Err(e) => return ChildEnd::Crashed(format!("wait failed: {e}")),
        }
        if let (Some(t), Some(st)) = (trace, stall) {
            let cur = last_line(t);
            if cur != last_trace.0 {
                last_trace = (cur, Instant::now());
            } else if last_trace.1.elapsed() > st {
                let _ = ch.kill();
                let _ = ch.wait();
                return ChildEnd::TimedOut;
            }
        }
        if start.elapsed() > limit {
            let _ = ch.kill();
            let _ = ch.wait();
            return ChildEnd::TimedOut;
        }
        std::thread::sleep(Duration::from_millis(20));
    }
}

fn last_line(path: &str) -> String {
    std::fs::read_to_string(path).ok().and_then(|s| s.lines().last().map(|x| x.to_string())).unwrap_or_default()
}

pub fn run(tier: Tier) -> i32 {
    let ctx = Ctx::new("C03", tier);
    let exe = std::env::current_exe().unwrap().to_string_lossy().to_string();
    let mut jobs: Vec<Vec<String>> = vec![];
    for l in langs::ALL {
        for part in ["a", "b", "c", "d", "g", "h", "i", "j"] {
            let nsh = match (part, tier) {
                ("a", Tier::Quick) => 4,
                ("a", Tier::Thorough) => 16,
                ("b", Tier::Quick) => 2,
                ("b", Tier::Thorough) => 16,
                ("h", _) => 1,
                ("i", _) => 2,
                ("j", Tier::Quick) => 4,
                ("j", Tier::Thorough) => 16,
                ("g", Tier::Quick) => 2,
                ("g", Tier::Thorough) => 8,
                ("d", Tier::Quick) => 2,
                ("d", Tier::Thorough) => 8,
                _ => 8,
            };
            for sh in 0..nsh {
                jobs.push(vec![part.into(), l.code().into(), sh.to_string(), nsh.to_string(), tier.name().into()]);
            }
        }
    }
    let limit = Duration::from_secs(tier.pick(60, 1200));
    let machinery_failure = std::sync::Mutex::new(None::<String>);
    let results: Vec<(Vec<String>, Acc)> = jobs
        .par_iter()
        .map(|args| {
            let mut acc = Acc::new();
            let mut handle_out = |out: &str, acc: &mut Acc| {
                for line in out.lines() {
                    let Ok(v) = serde_json::from_str::<Value>(line) else { continue };
                    if let Some(st) = v.get("stat") {
                        acc.states += st[0].as_u64().unwrap_or(0);
                        acc.transitions += st[1].as_u64().unwrap_or(0);
                        acc.traces += st[2].as_u64().unwrap_or(0);
                        for h in v["outcomes"].as_array().cloned().unwrap_or_default() {
                            if let Some(h) = h.as_u64() {
                                acc.outcomes.insert(h);
                            }
                        }
                        if let Some(s) = v["sample"].as_str() {
                            acc.sample(json!({"part": args[0], "lang": args[1], "input": s.chars().take(60).collect::<String>()}));
                        }
                    }
                    if let Some(x) = v.get("viol") {
                        ctx.report(acc, Violation {
                            lang: x["lang"].as_str().unwrap_or("").into(),
                            entry: x["entry"].as_str().unwrap_or("").into(),
                            input: x["input"].as_str().unwrap_or("").into(),
                            threshold: x["thr"].as_str().map(thr_parse),
                            clause: x["clause"].as_str().unwrap_or("").into(),
                            expected: x["expected"].as_str().unwrap_or("").into(),
                            observed: x["observed"].as_str().unwrap_or("").into(),
                        });
                    }
                }
            };
            match run_child(&exe, args, limit, None, None) {
                ChildEnd::Done(out) => handle_out(&out, &mut acc),
                ChildEnd::Stalled(input) => ctx.report(&mut acc, Violation {
                    lang: args[1].clone(),
                    entry: "any".into(),
                    input,
                    threshold: None,
                    clause: "terminates".into(),
                    expected: "returns within 20 s".into(),
                    observed: "no progress for 20 s on this input".into(),
                }),
                end => {
                    // crash (abort, stack overflow, OOM) or timeout: rerun traced to pin the input
                    let trace = format!("{}/target/c03-trace-{}-{}-{}.txt", verif_root(), args[0], args[1], args[2]);
                    let crashed = matches!(end, ChildEnd::Crashed(_));
                    let second = run_child(&exe, args, limit * 3, Some(&trace), Some(Duration::from_secs(20)));
                    let culprit: String = serde_json::from_str(&last_line(&trace)).unwrap_or_default();
                    let _ = std::fs::remove_file(&trace);
                    match second {
                        ChildEnd::Done(out) => {
                            // not reproducible: machinery problem, not a verdict
                            handle_out(&out, &mut acc);
                            if !crashed {
                                *machinery_failure.lock().unwrap() = Some(format!("shard {args:?} exceeded the time limit but completed when traced"));
                            } else {
                                *machinery_failure.lock().unwrap() = Some(format!("shard {args:?} crashed once and passed on rerun"));
                            }
                        }
                        ChildEnd::Crashed(st) => ctx.report(&mut acc, Violation {
                            lang: args[1].clone(),
                            entry: "any".into(),
                            input: culprit,
                            threshold: None,
                            clause: "returns (process must not abort)".into(),
                            expected: "a value".into(),
                            observed: format!("child process died: {st}"),
                        }),
                        ChildEnd::Stalled(input) => ctx.report(&mut acc, Violation {
                            lang: args[1].clone(),
                            entry: "any".into(),
                            input,
                            threshold: None,
                            clause: "terminates".into(),
                            expected: "returns within 20 s".into(),
                            observed: "no progress for 20 s on this input".into(),
                        }),
                        ChildEnd::TimedOut => ctx.report(&mut acc, Violation {
                            lang: args[1].clone(),
                            entry: "any".into(),
                            input: culprit,
                            threshold: None,
                            clause: "terminates".into(),
                            expected: "returns within 20 s".into(),
                            observed: "no progress for 20 s on this input".into(),
                        }),
                    }
                }
            }
            (args.clone(), acc)
        })
        .collect();
    if let Some(m) = machinery_failure.lock().unwrap().clone() {
        println!("machinery: {m}");
        return 2;
    }
    let mut acc = Acc::new();
    for (_, a) in results {
        acc.merge(a);
    }
    // (e) very long inputs on small stacks, against a dev-profile build of the library (no tail-call
    // elimination, no inlining): recursion whose depth grows with the input overflows there
    let (deep_n, deep_kib) = tier.pick((12_000usize, 128usize), (30_000, 128));
    match deep_recursion_probe(deep_n, deep_kib) {
        Ok((lines, None)) => {
            acc.states += lines as u64;
            acc.traces += lines as u64 * 7;
        }
        Ok((_, Some(what))) => {
            ctx.report(&mut acc, Violation {
                lang: "*".into(),
                entry: "deep_recursion_probe".into(),
                input: format!("probes/deeprec (library built in the dev profile: debug assertions, overflow checks, no tail calls): {deep_n} tokens (ordinary word, unit, thousand, conjunction; joined by space, hyphen, comma) on threads with {deep_kib} KiB of stack, then every stream of <= 3 of 11 class words (<= 4 of 7) x 7 thresholds; through text2digits, replace_numbers_in_text, find_numbers, find_numbers_iter"),
                threshold: None,
                clause: "every entry point terminates and returns on very long input".into(),
                expected: "all calls return".into(),
                observed: what,
            });
        }
        Err(e) => {
            println!("machinery: {e}");
            return 2;
        }
    }
    acc.nontrivial = acc.states;
    let cov = json!({
        "exhaustive": true,
        "rule": "(a) every string of length <= k over 21 characters; (b) every sequence of <= k atoms over the full vocabulary plus {\"\",-,--,-a,a-} joined by space and by hyphen; (c) a fixed smoke list of long inputs (NOT an exhaustive space); (h) every text of <= 4 words over {a word-like string literal of the current source tree that no alphabet knows, ordinary word, one, unit, tens, ambiguous words} containing that literal; (g) every sequence of <= 4 (thorough 5) words over nine, tens, hundred, one and the scale words; (i) every text of <= 3 tokens over 9 class words + 16 digit-like tokens (ASCII figures, Arabic-Indic / Devanagari / fullwidth / mathematical digits, superscripts, vulgar fractions, Roman and circled numerals, a CJK numeral, 1e5, 0x1F, 3.5) containing one of the latter, and of 4 tokens over 4 words + 8 of them; (j) every text of <= 4 (thorough 5) words over the first 16 class symbols and of 5 (6) words over the first 10, plus leading-zero runs of 1..=12 in front of every word of the full vocabulary; (d) every token stream of <= k tokens over class words and compound fragments, each plain, '~' or '!' hinted, through find_numbers, find_numbers_iter and replace_numbers_in_stream; each x 7 languages x {text2digits, replace_numbers_in_text, find_numbers, find_numbers_iter drained, replace_numbers_in_stream} x thresholds; get_interpreter_for on the strings of (a)",
        "characters": CHARS.iter().map(|c| format!("U+{:04X}", *c as u32)).collect::<Vec<_>>(),
        "bounds": {"a_max_len": tier.pick(4, 6), "a_len6_thresholds": "0, NaN only", "b_max_atoms": tier.pick(2, 3), "c_repetitions": tier.pick(3000, 20_000), "e_tokens": deep_n, "e_stack_kib": deep_kib, "e_short_streams": "dev-profile build: every stream of <= 3 of 11 class words (<= 4 of the first 7) per language, and every stream of <= 3 of 8 compound / hyphen-group words with their neighbours, x thresholds {0, 10, 50, 1000, inf, NaN, -1} x 4 entry points"},
        "thresholds": THRS.iter().map(|t| thr_name(*t)).collect::<Vec<_>>(),
        "child_processes": jobs.len(),
    });
    ctx.finish(acc, cov, vec![
        "termination is decided up to a watchdog (20 s without progress on one input)".into(),
        "part (c) is a scaling smoke list, not an exhaustive space".into(),
    ])
}
