pub mod c01;
pub mod c12;
pub mod c03;
pub mod c06;
