//! E-SEQ: depth-bounded exhaustive enumeration of symbol sequences, sharded by first symbol.
use crate::infra::*;

/// Enumerate every sequence of length 1..=k over `alphabet` (length-then-lexicographic per first
/// symbol), calling `f(symbols, acc)` for each; shards = first symbols; merged in shard order.
pub fn all_sequences<F>(alphabet: &[String], k: usize, f: F) -> Acc
where
    F: Fn(&[&str], &mut Acc) + Sync + Send,
{
    let n = alphabet.len();
    let shards: Vec<usize> = (0..n).collect();
    par_shards(shards, |&first, acc| {
        let mut syms: Vec<&str> = Vec::with_capacity(k);
        for_each_seq(n, k, first, &mut |idx| {
            syms.clear();
            for &i in idx {
                syms.push(alphabet[i].as_str());
            }
            f(&syms, acc);
        });
    })
}

/// Same, but sharded by the first two symbols (for deep enumerations over small alphabets).
pub fn all_sequences2<F>(alphabet: &[String], k: usize, f: F) -> Acc
where
    F: Fn(&[&str], &mut Acc) + Sync + Send,
{
    let n = alphabet.len();
    let mut shards: Vec<(usize, Option<usize>)> = vec![];
    for a in 0..n {
        shards.push((a, None));
        if k >= 2 {
            for b in 0..n {
                shards.push((a, Some(b)));
            }
        }
    }
    par_shards(shards, |&(a, b), acc| {
        let mut syms: Vec<&str> = Vec::with_capacity(k);
        match b {
            None => {
                syms.push(alphabet[a].as_str());
                f(&syms, acc);
            }
            Some(b) => {
                // sequences starting with (a, b), lengths 2..=k
                syms.push(alphabet[a].as_str());
                syms.push(alphabet[b].as_str());
                f(&syms, acc);
                if k > 2 {
                    for first in 0..n {
                        for_each_seq(n, k - 2, first, &mut |idx| {
                            syms.truncate(2);
                            for &i in idx {
                                syms.push(alphabet[i].as_str());
                            }
                            f(&syms, acc);
                        });
                    }
                }
            }
        }
    })
}

/// Long inputs: every pattern of 1..=k symbols repeated r times, for every r in `reps` (the
/// enumeration is exhaustive over pattern × repetition count; it reaches the lengths at which
/// buffers, windows and counters of an implementation wrap or flush).
pub fn all_repetitions<F>(alphabet: &[String], k: usize, reps: std::ops::RangeInclusive<usize>, f: F) -> Acc
where
    F: Fn(&[&str], &mut Acc) + Sync + Send,
{
    let n = alphabet.len();
    let mut shards: Vec<(usize, usize)> = vec![];
    for first in 0..n {
        let mut lo = *reps.start();
        while lo <= *reps.end() {
            let hi = (lo + 15).min(*reps.end());
            shards.push((first, lo * 1_000_000 + hi));
            lo = hi + 1;
        }
    }
    par_shards(shards, |&(first, range), acc| {
        let (lo, hi) = (range / 1_000_000, range % 1_000_000);
        let mut syms: Vec<&str> = vec![];
        for_each_seq(n, k, first, &mut |idx| {
            for r in lo..=hi {
                syms.clear();
                for _ in 0..r {
                    for &i in idx {
                        syms.push(alphabet[i].as_str());
                    }
                }
                f(&syms, acc);
            }
        });
    })
}
