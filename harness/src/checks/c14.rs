//! C14 — interpreters are stateless, pure and shareable across threads
//! (E-SEQ on call histories + E-SCHED on thread interleavings + Send/Sync compile probe + silence).
use crate::checks::c05::spell_fraction;
use crate::infra::*;
use crate::langs::{self, L};
use crate::ordspell;
use crate::sched::{self, Body};
use crate::spell::{self, Var};
use crate::stream::Occ;
use serde_json::json;
use std::cell::Cell;
use std::process::{Command, Stdio};
use std::sync::Arc;
use text2num::{find_numbers, find_numbers_iter, replace_numbers_in_stream, replace_numbers_in_text, text2digits, BasicAnnotate, LangInterpreter, Language, Replace, Token};

/// Shares an interpreter between harness threads whatever its auto traits are: the
/// Send + Sync *claim* is decided by the compile probe, the *behaviour* by the scheduler.
pub struct ForceShare<T>(pub T);
unsafe impl<T> Send for ForceShare<T> {}
unsafe impl<T> Sync for ForceShare<T> {}

/// Gated token: the first method call the library makes on it is a scheduling point.
pub struct GTok {
    text: String,
    lower: String,
    nan: Cell<bool>,
    touched: Cell<bool>,
}
impl GTok {
    fn new(t: &str) -> GTok {
        GTok { text: t.to_string(), lower: t.to_lowercase(), nan: Cell::new(false), touched: Cell::new(false) }
    }
    fn touch(&self) {
        if !self.touched.replace(true) {
            sched::point();
        }
    }
}
impl Token for &GTok {
    fn text(&self) -> &str {
        self.touch();
        &self.text
    }
    fn text_lowercase(&self) -> &str {
        self.touch();
        &self.lower
    }
    fn not_a_number_part(&self) -> bool {
        self.nan.get()
    }
}
impl BasicAnnotate for GTok {
    fn text_lowercase(&self) -> &str {
        self.touch();
        &self.lower
    }
    fn set_nan(&mut self, val: bool) {
        sched::point();
        self.nan.set(val)
    }
}
/// Rendezvous between user callbacks of different threads (one slot per language, explorations of different
/// languages run side by side): when a thread program arms it, the first `Replace::replace` call of each thread
/// waits — through `blocked` points — until every thread of the program has reached its own. User code that
/// synchronises inside a callback is legitimate; a library lock held across the callback turns it into a deadlock.
static RV_ARRIVED: [std::sync::atomic::AtomicUsize; 7] = [const { std::sync::atomic::AtomicUsize::new(0) }; 7];
thread_local! {
    static RV: Cell<Option<(usize, usize)>> = const { Cell::new(None) }; // (slot, threads expected)
}
fn rendezvous() {
    if let Some((slot, want)) = RV.with(|r| r.take()) {
        use std::sync::atomic::Ordering::SeqCst;
        RV_ARRIVED[slot].fetch_add(1, SeqCst);
        while RV_ARRIVED[slot].load(SeqCst) < want {
            sched::blocked();
        }
    }
}
impl Replace for GTok {
    fn replace<I: Iterator<Item = Self>>(replaced: I, data: String) -> Self {
        sched::point();
        rendezvous();
        let n = replaced.count();
        GTok::new(&format!("{data}<{n}>"))
    }
}
struct GIter<'a> {
    it: std::slice::Iter<'a, GTok>,
}
impl<'a> Iterator for GIter<'a> {
    type Item = &'a GTok;
    fn next(&mut self) -> Option<&'a GTok> {
        sched::point();
        self.it.next()
    }
}

fn toks(words: &str) -> Vec<GTok> {
    words.split(' ').map(GTok::new).collect()
}
/// tokens for streams pulled through `GIter` (the pull is the scheduling point; no second one per token)
fn toks_pulled(words: &str) -> Vec<GTok> {
    let v = toks(words);
    for t in &v {
        t.touched.set(true);
    }
    v
}
fn occs_str(v: Vec<text2num::Occurence>) -> String {
    v.iter().map(|o| Occ::of(o).show()).collect::<Vec<_>>().join(" ")
}

/// phrases per language built from the reference spellers, chosen to collide on the same code
/// paths: compounds (word splitter), ambiguous words, decimals, ordinals, conjunctions
pub fn phrases(l: L, short: bool) -> (String, String, String) {
    let s = |n| spell::spell(l, n, Var::default());
    if short {
        // thread programs: few tokens (the schedule space grows with the square of the points)
        // rarer morphology on purpose: 22 (Dutch diaeresis connector, Italian accent), a compound ordinal
        let ord = ordspell::ord_forms(l, 22, Var::default()).remove(0).text;
        let amb = match l {
            // the ambiguous word twice: per-text state of the ambiguity rules (counters, modes) gets exercised
            L::En => "o o".to_string(),
            L::Fr => "un neuf neuf".to_string(),
            _ => s(6),
        };
        let p1 = format!("{} {} {} {}", s(22), l.sep(), spell_fraction(l, "05"), ord);
        // a second, different decimal (two threads formatting different decimals at the same time)
        let p2 = format!("{} {} {} , {} {}", s(7), l.sep(), spell_fraction(l, "3"), amb, s(90));
        return (p1, p2, s(3_456));
    }
    let ord = ordspell::ord_forms(l, 3, Var::default()).remove(0).text;
    let amb = match l {
        L::En => "twenty o o xyzzy".to_string(),
        L::Fr => "un logement neuf du cent neuf".to_string(),
        _ => format!("{} {}", s(11), s(6)),
    };
    let p1 = format!("{} xyzzy {} {} {} plugh {} {}", s(2021), s(1), l.sep(), spell_fraction(l, "05"), ord, amb);
    let p2 = format!("{} , {} {} plugh {} {} {}", s(7), s(8), amb, s(90), l.conj(), s(3));
    let compound = s(123_456);
    (p1, p2, compound)
}

pub const NCALLS: usize = 15;
/// calls 0..SCHED_CALLS are used in thread programs; the rest are partial calls for histories
pub const SCHED_CALLS: usize = 7;
pub fn call_name(i: usize) -> &'static str {
    [
        "find_numbers(P1)",
        "find_numbers(P2)",
        "replace_numbers_in_stream(P1)",
        "basic_annotate+find(P2)",
        "text2digits(compound)",
        "replace_numbers_in_text(P2)",
        "find_numbers_iter(P1) stepwise",
        "find_numbers_iter(P3).next() then dropped",
        "find_numbers_iter(P3).take(2) then dropped",
        "find_numbers_iter(P1).next() then dropped",
        "replace_numbers_in_stream(four numbers)",
        "find_numbers(ordinals 1 and 25, inflection 2)",
        "find_numbers(ordinals 1 and 25, inflection 3)",
        "find_numbers(ordinals 1 and 25, last inflection)",
        "find_numbers_iter(small adjacent numbers, threshold 10).next() then dropped",
    ][i]
}
/// adjacent numbers separated by nothing but spaces: when one is returned the next is already being built
pub fn phrase3(l: L) -> String {
    let s = |n| spell::spell(l, n, Var::default());
    format!("{} {} {} {} {}", s(25), s(12), s(30), s(1), s(2))
}

/// "<1st> , <25th>" in inflection k = 0 (second form), 1 (third form), 2 (last form) of the language's ordinals
pub fn inflected_phrase(l: L, k: usize) -> String {
    let pick = |n: u64| -> String {
        let forms: Vec<String> = ordspell::ord_forms(l, n, Var::default()).into_iter().map(|f| f.text).collect();
        let idx = match k {
            0 => 1,
            1 => 2,
            _ => forms.len().saturating_sub(1),
        };
        forms.get(idx.min(forms.len().saturating_sub(1))).cloned().unwrap_or_default()
    };
    format!("{} , {}", pick(1), pick(25))
}

/// One API call; every callback into harness code and both call boundaries are scheduling points.
pub fn call<I: LangInterpreter>(lang: &I, l: L, i: usize) -> String {
    call_on(lang, l, i, false)
}
pub fn call_on<I: LangInterpreter>(lang: &I, l: L, i: usize, short: bool) -> String {
    let (p1, p2, compound) = phrases(l, short);
    sched::point();
    let r = guard(|| match i {
        0 => {
            let t = toks_pulled(&p1);
            occs_str(find_numbers(GIter { it: t.iter() }, lang, 10.0))
        }
        1 => {
            let t = toks_pulled(&p2);
            occs_str(find_numbers(GIter { it: t.iter() }, lang, 0.0))
        }
        2 => replace_numbers_in_stream(toks(&p1), lang, 10.0).iter().map(|t| t.text.clone()).collect::<Vec<_>>().join(" "),
        3 => {
            let mut t = toks(&p2);
            lang.basic_annotate(&mut t);
            let nan: String = t.iter().map(|x| if x.nan.get() { '1' } else { '0' }).collect();
            format!("{nan} {}", occs_str(find_numbers(t.iter(), lang, 0.0)))
        }
        4 => format!("{:?}|{:?}", text2digits(&compound, lang), text2digits(&p2, lang).is_ok()),
        5 => replace_numbers_in_text(&p2, lang, 10.0),
        6 => {
            let t = toks_pulled(&p1);
            let mut it = find_numbers_iter(GIter { it: t.iter() }, lang, 0.0);
            let mut out = vec![];
            while let Some(o) = it.next() {
                sched::point();
                out.push(Occ::of(&o).show());
            }
            out.join(" ")
        }
        // abandoned lazy scans: the iterator is dropped while the parser still holds digits
        7 | 8 => {
            let t = toks_pulled(&phrase3(l));
            let it = find_numbers_iter(GIter { it: t.iter() }, lang, 0.0);
            it.take(i - 6).map(|o| Occ::of(&o).show()).collect::<Vec<_>>().join(" ")
        }
        9 => {
            let t = toks_pulled(&p1);
            let mut it = find_numbers_iter(GIter { it: t.iter() }, lang, 10.0);
            it.next().map(|o| Occ::of(&o).show()).unwrap_or_default()
        }
        // inflected ordinals: "<1st> , <25th>" in the second, third and last inflection the language has
        11 | 12 | 13 => {
            let t = toks_pulled(&inflected_phrase(l, i - 11));
            occs_str(find_numbers(GIter { it: t.iter() }, lang, 0.0))
        }
        // abandoned lazy scan with a threshold: a held small number is released together with its neighbour, so two
        // occurrences are queued when the first is returned and the iterator is dropped
        14 => {
            let s = |n| spell::spell(l, n, Var::default());
            let t = toks_pulled(&format!("xyzzy {} {} xyzzy {} {}", s(1), s(2), s(3), s(4)));
            let mut it = find_numbers_iter(GIter { it: t.iter() }, lang, 10.0);
            it.next().map(|o| Occ::of(&o).show()).unwrap_or_default()
        }
        // four separate numbers: four calls of the replacement constructor in one rewriting
        _ => {
            let s = |n| spell::spell(l, n, Var::default());
            let four = format!("{} , {} , {} , {}", s(1), s(2), s(3), s(4));
            replace_numbers_in_stream(toks(&four), lang, 0.0).iter().map(|t| t.text.clone()).collect::<Vec<_>>().join(" ")
        }
    });
    sched::point();
    r.unwrap_or_else(|p| p)
}

fn histories(ctx: &Ctx, acc: &mut Acc, l: L, depth: usize) {
    let expected: Vec<String> = (0..NCALLS).map(|i| call(&l.facade(), l, i)).collect();
    for e in &expected {
        acc.outcome(e);
    }
    // one shared interpreter, and two interpreters interleaved
    for ninterp in [1usize, 2] {
        let n = NCALLS * ninterp;
        for first in 0..n {
            for_each_seq(n, depth, first, &mut |idx| {
                acc.states += 1;
                let interps = [l.facade(), l.facade()];
                for (step, &sym) in idx.iter().enumerate() {
                    let (which, ci) = (sym / NCALLS, sym % NCALLS);
                    acc.transitions += 1;
                    acc.traces += 1;
                    let got = call(&interps[which], l, ci);
                    if got != expected[ci] {
                        ctx.report(acc, Violation {
                            lang: l.code().into(),
                            entry: "history".into(),
                            input: idx[..=step].iter().map(|&s| format!("interp{}.{}", s / NCALLS, call_name(s % NCALLS))).collect::<Vec<_>>().join("; "),
                            threshold: None,
                            clause: "result(c | history) = result(c | fresh interpreter)".into(),
                            expected: expected[ci].clone(),
                            observed: got,
                        });
                    }
                }
            });
        }
    }
    // two lazy searches alive on the same thread, advanced in every merge order of their next() calls
    let (p1, p2, _) = phrases(l, false);
    let lang = l.facade();
    let solo = |p: &str, thr: f64| -> Vec<String> {
        let t = toks(p);
        find_numbers_iter(t.iter(), &lang, thr).map(|o| Occ::of(&o).show()).collect()
    };
    let (e1, e2) = (solo(&p1, 0.0), solo(&p2, 10.0));
    let (n1, n2) = (e1.len() + 1, e2.len() + 1); // +1: the final None
    let total = n1 + n2;
    // enumerate all bitmasks with n1 ones
    let mut orders = 0u64;
    for mask in 0u32..(1u32 << total) {
        if mask.count_ones() as usize != n1 {
            continue;
        }
        orders += 1;
        acc.states += 1;
        let (t1, t2) = (toks(&p1), toks(&p2));
        let r = guard(|| {
            let mut a = find_numbers_iter(t1.iter(), &lang, 0.0);
            let mut b = find_numbers_iter(t2.iter(), &lang, 10.0);
            let (mut ra, mut rb) = (vec![], vec![]);
            for bit in 0..total {
                acc_step(&mut ra, &mut rb, mask & (1 << bit) != 0, &mut a, &mut b);
            }
            (ra, rb)
        });
        acc.transitions += total as u64;
        acc.traces += 1;
        match r {
            Ok((ra, rb)) if ra == e1 && rb == e2 => {}
            other => ctx.report(acc, Violation {
                lang: l.code().into(),
                entry: "history".into(),
                input: format!("two find_numbers_iter alive, next() merge order mask {mask:#b} over P1={p1:?} P2={p2:?}"),
                threshold: None,
                clause: "two lazy searches advanced alternately each give their solo result".into(),
                expected: format!("{e1:?} / {e2:?}"),
                observed: format!("{other:?}"),
            }),
        }
    }
    acc.count("iterator_merge_orders", orders);
}

/// Every ordered pair of short phrases (<= 2 words over a class alphabet enriched with thousand-compounds)
/// as a 2-call history on one interpreter: the second call must give its fresh-interpreter result. This is
/// the shape that exposes a memo keyed too coarsely (a word accepted in one context, refused in another).
fn pair_histories(ctx: &Ctx, acc: &mut Acc, l: L, nwords: usize) {
    let s = |n| spell::spell(l, n, Var::default());
    let mut alpha: Vec<String> = crate::vocab::sigma_cls(l).into_iter().filter(|w| w.chars().any(|c| c.is_alphabetic())).take(nwords).collect();
    let compounds: Vec<String> = match l {
        L::De | L::Nl | L::It => vec![s(2000), s(20_000), s(21)],
        L::En | L::Fr => vec![s(2000).replace(' ', "-"), s(20_000).replace(' ', "-"), s(22)],
        _ => vec![s(22)],
    };
    for c in compounds {
        if !alpha.contains(&c) {
            alpha.push(c);
        }
    }
    let n = alpha.len();
    let mut phrases: Vec<String> = vec![];
    for first in 0..n {
        for_each_seq(n, 2, first, &mut |idx| phrases.push(idx.iter().map(|&i| alpha[i].as_str()).collect::<Vec<_>>().join(" ")));
    }
    let obs = |lang: &Language, p: &str| -> String {
        guard(|| format!("{:?}|{}|{}", text2digits(p, lang).ok(), replace_numbers_in_text(p, lang, 0.0), replace_numbers_in_text(p, lang, 10.0))).unwrap_or_else(|e| e)
    };
    let expected: Vec<String> = phrases.iter().map(|p| obs(&l.facade(), p)).collect();
    for (i, p) in phrases.iter().enumerate() {
        for (j, q) in phrases.iter().enumerate() {
            acc.states += 1;
            acc.transitions += 2;
            acc.traces += 1;
            let lang = l.facade();
            let first = obs(&lang, p);
            let second = obs(&lang, q);
            if first != expected[i] || second != expected[j] {
                ctx.report(acc, Violation {
                    lang: l.code().into(),
                    entry: "history".into(),
                    input: format!("calls on {p:?}; then calls on {q:?} (same interpreter)"),
                    threshold: None,
                    clause: "result(c | one earlier call) = result(c | fresh interpreter)".into(),
                    expected: expected[j].clone(),
                    observed: second,
                });
            }
        }
    }
    acc.count("pair_history_phrases", phrases.len() as u64);
    // (a2) chains: the same calls twelve times in a row on one interpreter (and one thread), then every phrase once —
    // state that leaks a little per call (a counter never decremented, a pool that fills up) shows after a while
    for (i, p) in phrases.iter().enumerate() {
        let lang = l.facade();
        for _ in 0..12 {
            acc.transitions += 1;
            let got = obs(&lang, p);
            if got != expected[i] {
                ctx.report(acc, Violation { lang: l.code().into(), entry: "history".into(), input: format!("calls on {p:?} repeated (same interpreter)"), threshold: None, clause: "result(c | the same call made before) = result(c | fresh interpreter)".into(), expected: expected[i].clone(), observed: got });
                break;
            }
        }
        acc.states += 1;
        acc.traces += 1;
        // afterwards a few other phrases (the compound ones last in the list) still get their fresh answers
        for (j, q) in phrases.iter().enumerate().rev().take(12) {
            let second = obs(&lang, q);
            if second != expected[j] {
                ctx.report(acc, Violation { lang: l.code().into(), entry: "history".into(), input: format!("calls on {p:?} twelve times; then calls on {q:?} (same interpreter)"), threshold: None, clause: "result(c | twelve earlier calls) = result(c | fresh interpreter)".into(), expected: expected[j].clone(), observed: second });
                break;
            }
        }
    }
    // (b) first call = ONE word from a wider alphabet (every vocabulary word that is a number below 20 on its
    // own — all the spelling aliases of the small numbers — plus the words above), second call = a phrase
    let mut wide: Vec<String> = alpha.clone();
    let probe = l.facade();
    for w in crate::vocab::number_words(l) {
        if wide.contains(&w) {
            continue;
        }
        if let Ok(Ok(d)) = guard(|| text2digits(&w, &probe)) {
            if d.trim_start_matches('0').len() <= 2 && d.bytes().all(|c| c.is_ascii_digit()) && d.parse::<u32>().map_or(false, |v| v < 20) {
                wide.push(w);
            }
        }
    }
    // second calls also over the aliases: phrases of <= 2 words over `alpha` plus each alias alone or first
    let mut seconds: Vec<String> = phrases.clone();
    for w in wide.iter().skip(alpha.len()) {
        seconds.push(w.clone());
        for v in alpha.iter().take(6) {
            seconds.push(format!("{w} {v}"));
        }
    }
    let expected2: Vec<String> = seconds.iter().map(|p| obs(&l.facade(), p)).collect();
    for p in &wide {
        for (j, q) in seconds.iter().enumerate() {
            acc.states += 1;
            acc.transitions += 2;
            acc.traces += 1;
            let lang = l.facade();
            let _ = obs(&lang, p);
            let second = obs(&lang, q);
            if second != expected2[j] {
                ctx.report(acc, Violation {
                    lang: l.code().into(),
                    entry: "history".into(),
                    input: format!("calls on {p:?}; then calls on {q:?} (same interpreter)"),
                    threshold: None,
                    clause: "result(c | one earlier call) = result(c | fresh interpreter)".into(),
                    expected: expected2[j].clone(),
                    observed: second,
                });
            }
        }
    }
    acc.count("pair_history_first_words", wide.len() as u64);
    // (c) single words: every ordered pair of (vocabulary word | inflected ordinal of a few ranks, compound ones
    // included | one-word spelling of a few numbers) as two validations and two rewritings on one interpreter —
    // caches keyed by a lemma, a length or an address show here
    let mut words: Vec<String> = crate::vocab::number_words(l);
    // function words and unknown literals of the current source tree (state that a new idiom keeps on the
    // interpreter shows between two one-word calls)
    for w in crate::vocab::function_words(l).iter().map(|x| x.to_string()).chain(crate::vocab::new_source_literals(l)) {
        if !words.contains(&w) {
            words.push(w);
        }
    }
    for rank in [1u64, 2, 3, 8, 11, 20, 21, 22, 100, 342, 1000] {
        if rank > ordspell::max_rank(l) {
            continue;
        }
        for v in [Var::default(), Var { split: true, ..Var::default() }] {
            for f in ordspell::ord_forms(l, rank, v) {
                if !f.text.contains(' ') && !words.contains(&f.text) {
                    words.push(f.text);
                }
            }
        }
    }
    for n in [14u64, 21, 22, 100, 101, 120, 200, 1000, 1100, 2000, 3456, 20_000, 100_000] {
        let w = s(n);
        if !w.contains(' ') && !words.contains(&w) {
            words.push(w);
        }
    }
    let obs1 = |lang: &Language, p: &str| -> String { guard(|| format!("{:?}|{}", text2digits(p, lang).ok(), replace_numbers_in_text(p, lang, 0.0))).unwrap_or_else(|e| e) };
    let expected3: Vec<String> = words.iter().map(|p| obs1(&l.facade(), p)).collect();
    for p in &words {
        for (j, q) in words.iter().enumerate() {
            acc.states += 1;
            acc.transitions += 2;
            acc.traces += 1;
            let lang = l.facade();
            let _ = obs1(&lang, p);
            let second = obs1(&lang, q);
            if second != expected3[j] {
                ctx.report(acc, Violation {
                    lang: l.code().into(),
                    entry: "history".into(),
                    input: format!("calls on {p:?}; then calls on {q:?} (same interpreter)"),
                    threshold: None,
                    clause: "result(c | one earlier call) = result(c | fresh interpreter)".into(),
                    expected: expected3[j].clone(),
                    observed: second,
                });
            }
        }
    }
    acc.count("pair_history_single_words", words.len() as u64);
}

/// Histories across languages on the SAME texts with different thresholds: a cache or global keyed
/// too coarsely (text only, first language, first threshold) shows up here.
fn cross_language_histories(ctx: &Ctx, acc: &mut Acc, depth: usize) {
    const TEXTS: [&str; 2] = ["zero un due tres six elf mil million nove tien", "xyzzy six , elf plugh mil e un o neuf"];
    let interps: Vec<(L, Language)> = langs::ALL.iter().map(|l| (*l, l.facade())).collect();
    // call = (language index, kind 0..4, text index)
    let ncalls = interps.len() * 4 * TEXTS.len();
    let run = |lang: &Language, kind: usize, text: &str| -> String {
        guard(|| match kind {
            0 => format!("{:?}", text.split(' ').map(|w| text2digits(w, lang).ok()).collect::<Vec<_>>()),
            1 => replace_numbers_in_text(text, lang, 0.0),
            2 => replace_numbers_in_text(text, lang, 10.0),
            _ => {
                let t = toks_pulled(text);
                occs_str(find_numbers(t.iter(), lang, 5.0))
            }
        })
        .unwrap_or_else(|p| p)
    };
    let decode = |c: usize| (c / (4 * TEXTS.len()), (c / TEXTS.len()) % 4, c % TEXTS.len());
    let expected: Vec<String> = (0..ncalls)
        .map(|c| {
            let (li, k, ti) = decode(c);
            run(&interps[li].0.facade(), k, TEXTS[ti])
        })
        .collect();
    for first in 0..ncalls {
        for_each_seq(ncalls, depth, first, &mut |idx| {
            acc.states += 1;
            for (step, &c) in idx.iter().enumerate() {
                let (li, k, ti) = decode(c);
                acc.transitions += 1;
                acc.traces += 1;
                let got = run(&interps[li].1, k, TEXTS[ti]);
                if got != expected[c] {
                    ctx.report(acc, Violation {
                        lang: interps[li].0.code().into(),
                        entry: "history".into(),
                        input: idx[..=step].iter().map(|&x| { let (a, b, t) = decode(x); format!("{}.call{}(text{})", interps[a].0.code(), b, t) }).collect::<Vec<_>>().join("; "),
                        threshold: None,
                        clause: "result(c | history over several languages and thresholds) = result(c | fresh interpreter)".into(),
                        expected: expected[c].clone(),
                        observed: got,
                    });
                }
            }
        });
    }
}

fn acc_step<A: Iterator<Item = text2num::Occurence>, B: Iterator<Item = text2num::Occurence>>(ra: &mut Vec<String>, rb: &mut Vec<String>, first: bool, a: &mut A, b: &mut B) {
    if first {
        if let Some(o) = a.next() {
            ra.push(Occ::of(&o).show());
        }
    } else if let Some(o) = b.next() {
        rb.push(Occ::of(&o).show());
    }
}

/// The same exploration on the CONCRETE interpreter type shared by the threads (the facade does not forward
/// every trait method, so state kept by a concrete interpreter can be out of its reach).
fn schedules_concrete(ctx: &Ctx, acc: &mut Acc, l: L) {
    crate::with_concrete!(l, fresh => {
        let expected: Vec<String> = (0..NCALLS).map(|i| call_on(&fresh, l, i, true)).collect();
        macro_rules! explore_on {
            ($mk_interp:expr) => {{
                let slot = Arc::new(std::sync::Mutex::new(Arc::new(ForceShare($mk_interp))));
                let reset = || *slot.lock().unwrap() = Arc::new(ForceShare($mk_interp));
                for (a, b) in [(4usize, 4usize), (4, 0), (0, 4), (0, 0), (4, 5)] {
                    let mk = |c: usize| -> Body<Vec<String>> {
                        let slot = slot.clone();
                        Arc::new(move || {
                            let sh = slot.lock().unwrap().clone();
                            vec![call_on(&sh.0, l, c, true)]
                        })
                    };
                    let bodies = vec![mk(a), mk(b)];
                    let mut bad: Option<(Vec<usize>, String)> = None;
                    let ex = sched::explore(&bodies, 1, &reset, &mut |choices, results: &[Vec<String>]| {
                        for (t, c) in [(0usize, a), (1, b)] {
                            let got = results.get(t).and_then(|r| r.first()).cloned().unwrap_or_default();
                            if got != expected[c] && bad.is_none() {
                                bad = Some((choices.to_vec(), format!("T{t}.{} = {got}   (expected {})", call_name(c), expected[c])));
                            }
                        }
                    });
                    acc.states += ex.executions;
                    acc.transitions += ex.executions * ex.max_points as u64;
                    acc.traces += ex.executions;
                    acc.count("programs_on_concrete_type", 1);
                    if let Some((choices, what)) = bad {
                        ctx.report(acc, Violation {
                            lang: l.code().into(),
                            entry: "schedule".into(),
                            input: format!("concrete interpreter type shared by T0: {} || T1: {} ; schedule {choices:?}", call_name(a), call_name(b)),
                            threshold: None,
                            clause: "the result of a call does not depend on concurrent calls sharing the interpreter".into(),
                            expected: "every call returns its sequential fresh-interpreter result".into(),
                            observed: what,
                        });
                    }
                }
            }};
        }
        match l {
            L::En => explore_on!(text2num::lang::English::new()),
            L::Fr => explore_on!(text2num::lang::French::new()),
            L::Es => explore_on!(text2num::lang::Spanish::new()),
            L::Pt => explore_on!(text2num::lang::Portuguese::new()),
            L::It => explore_on!(text2num::lang::Italian::new()),
            L::De => explore_on!(text2num::lang::German::new()),
            L::Nl => explore_on!(text2num::lang::Dutch::new()),
        }
    });
}

fn schedules(ctx: &Ctx, acc: &mut Acc, l: L, tier: Tier, instrumented: bool) {
    let expected: Vec<String> = (0..NCALLS).map(|i| call_on(&l.facade(), l, i, true)).collect();
    // the interpreter shared by the threads of one execution; a fresh one for every execution
    let slot: Arc<std::sync::Mutex<Arc<ForceShare<Language>>>> = Arc::new(std::sync::Mutex::new(Arc::new(ForceShare(l.facade()))));
    let lslot = langs::ALL.iter().position(|x| *x == l).unwrap_or(0);
    let mk = |calls: Vec<usize>, rendezvous_of: usize| -> Body<Vec<String>> {
        let slot = slot.clone();
        Arc::new(move || {
            let sh = slot.lock().unwrap().clone();
            if rendezvous_of > 0 {
                RV.with(|r| r.set(Some((lslot, rendezvous_of))));
            }
            let out = calls.iter().map(|&c| call_on(&sh.0, l, c, true)).collect();
            RV.with(|r| r.set(None));
            out
        })
    };
    let reset = || {
        *slot.lock().unwrap() = Arc::new(ForceShare(l.facade()));
        RV_ARRIVED[lslot].store(0, std::sync::atomic::Ordering::SeqCst);
    };
    // the instrumented build has many more scheduling points per call: fewer programs, same bounds
    // (program, preemption bound): all ordered pairs at bound 1; a core of pairs at bound 2 (thorough);
    // two calls per thread and three threads at bound 1
    let pick = |i: usize| -> usize { if instrumented { [4usize, 0, 5, 3, 2][i] } else { i } };
    let mut programs: Vec<(Vec<Vec<usize>>, usize)> = vec![];
    let ncalls = if instrumented { tier.pick(3usize, 5) } else { tier.pick(5usize, SCHED_CALLS) };
    for a in 0..ncalls {
        for b in 0..ncalls {
            programs.push((vec![vec![pick(a)], vec![pick(b)]], 1));
        }
    }
    if tier == Tier::Thorough {
        let core: &[usize] = if instrumented { &[4, 0, 5] } else { &[0, 2, 3, 4] };
        for &a in core {
            for &b in core {
                programs.push((vec![vec![a], vec![b]], 2));
            }
        }
    }
    // three threads making the same call (lost wake-ups, initialisation races need more than one waiter), and the
    // rewriting of four numbers by two threads whose constructors wait for each other (program 10 || 10)
    programs.push((vec![vec![4], vec![4], vec![4]], 1));
    programs.push((vec![vec![0], vec![0], vec![0]], 1));
    if instrumented {
        // (only where every lock of the library is under the scheduler's control: on the plain build a thread
        // stuck on a real lock costs a time-out per schedule)
        programs.push((vec![vec![10], vec![10]], 1));
    }
    // inflected ordinals against each other and against the two base phrases (distinct phrases only)
    {
        let mut cs: Vec<usize> = vec![0, 1];
        let mut seen: Vec<String> = vec![];
        for k in 0..3 {
            let p = inflected_phrase(l, k);
            if !seen.contains(&p) {
                seen.push(p);
                cs.push(11 + k);
            }
        }
        for &a in &cs {
            for &b in &cs {
                if a >= 11 || b >= 11 {
                    programs.push((vec![vec![a], vec![b]], 1));
                }
            }
        }
    }
    if !instrumented {
        if tier == Tier::Thorough {
            for a in [0usize, 2, 3, 5] {
                for b in [1usize, 3, 6] {
                    programs.push((vec![vec![a, b], vec![b, a]], 1));
                }
            }
            for a in [0usize, 3] {
                for b in [1usize, 5] {
                    programs.push((vec![vec![a], vec![b], vec![6]], 1));
                }
            }
            programs.push((vec![vec![0], vec![3], vec![4]], 2));
        } else {
            programs.push((vec![vec![0], vec![3], vec![5]], 1));
        }
    }
    for (prog, bound) in programs {
        let rv = if prog.len() == 2 && prog.iter().all(|c| c == &vec![10usize]) { 2 } else { 0 };
        let bodies: Vec<Body<Vec<String>>> = prog.iter().map(|c| mk(c.clone(), rv)).collect();
        let name = prog.iter().enumerate().map(|(t, cs)| format!("T{t}: {}", cs.iter().map(|&c| call_name(c)).collect::<Vec<_>>().join(", "))).collect::<Vec<_>>().join(" || ");
        let mut outcomes: std::collections::BTreeSet<String> = Default::default();
        let mut bad: Vec<(Vec<usize>, String)> = vec![];
        let ex = sched::explore(&bodies, bound, &reset, &mut |choices, results: &[Vec<String>]| {
            outcomes.insert(format!("{results:?}"));
            for (t, cs) in prog.iter().enumerate() {
                for (k, &c) in cs.iter().enumerate() {
                    let got = results.get(t).and_then(|r| r.get(k)).cloned().unwrap_or_else(|| "<thread died>".into());
                    if got != expected[c] {
                        bad.push((choices.to_vec(), format!("T{t}.{} = {got}   (expected {})", call_name(c), expected[c])));
                    }
                }
            }
            // afterwards the shared interpreter still answers like a fresh one (state damaged by the concurrent
            // phase — a lost update, a half-built cache — shows in the next, sequential, calls)
            let sh = slot.lock().unwrap().clone();
            let mut seen: Vec<usize> = vec![];
            for &c in prog.iter().flatten() {
                if seen.contains(&c) {
                    continue;
                }
                seen.push(c);
                let got = call_on(&sh.0, l, c, true);
                if got != expected[c] {
                    bad.push((choices.to_vec(), format!("after the threads have finished, {} on the same interpreter = {got}   (expected {})", call_name(c), expected[c])));
                }
            }
        });
        acc.states += ex.executions;
        acc.transitions += ex.executions * ex.max_points as u64;
        acc.traces += ex.executions;
        acc.count("schedules_infeasible", ex.infeasible);
        acc.count("schedules_with_a_blocked_thread_left_loose", ex.overlapped);
        acc.count("schedules_given_up_because_a_prefix_could_not_be_replayed", ex.diverged);
        acc.count("programs_cut_short_after_five_timeouts", ex.gave_up as u64);
        for d in ex.deadlocks.iter().take(1) {
            ctx.report(acc, Violation {
                lang: l.code().into(),
                entry: "schedule".into(),
                input: format!("{name} ; schedule (choice index per scheduling point) {d:?}"),
                threshold: None,
                clause: "concurrent calls sharing the interpreter return (no deadlock)".into(),
                expected: "every call returns".into(),
                observed: format!("every live thread waits for a lock; {} of {} explored schedules deadlock", ex.deadlocks.len(), ex.executions),
            });
        }
        acc.count("programs", 1);
        for o in &outcomes {
            acc.outcome(&(l.code(), o));
        }
        acc.count("programs_with_more_than_one_outcome", (outcomes.len() > 1) as u64);
        if let Some((choices, what)) = bad.first() {
            // replay the recorded schedule twice before believing it
            let again: Vec<bool> = (0..2)
                .map(|_| {
                    reset();
                    let x = sched::run_once(&bodies, choices);
                    prog.iter().enumerate().any(|(t, cs)| cs.iter().enumerate().any(|(k, &c)| x.results.get(t).and_then(|r| r.get(k)) != Some(&expected[c])))
                })
                .collect();
            ctx.report(acc, Violation {
                lang: l.code().into(),
                entry: "schedule".into(),
                input: format!("{name} ; schedule (choice index per scheduling point) {choices:?}"),
                threshold: None,
                clause: "the result of a call does not depend on concurrent calls sharing the interpreter".into(),
                expected: "every call returns its sequential fresh-interpreter result".into(),
                observed: format!("{what}; {} of {} explored schedules affected; reproduced on replay: {again:?}", bad.len(), ex.executions),
            });
        }
        if acc.samples.len() < 4 {
            acc.sample(json!({"lang": l.code(), "program": name, "schedules": ex.executions, "scheduling_points": ex.max_points, "distinct_outcomes": outcomes.len()}));
        }
    }
}

/// Generate the scheduler-instrumented copy of the library: /repo's sources with `std::sync`
/// redirected to the `verif_sync` wrappers (shim/verif_sync.rs). /repo itself is not touched.
fn make_shim_copy() -> Result<String, String> {
    let root = verif_root();
    let repo = format!("{root}/harness/repo");
    let dst = format!("{root}/target/shim-src");
    std::fs::create_dir_all(format!("{dst}/src")).map_err(|e| e.to_string())?;
    // files are only rewritten when their content changes, so cargo rebuilds the copy only when /repo changed
    fn put(path: &std::path::Path, content: &[u8]) -> Result<(), String> {
        if std::fs::read(path).map_or(true, |old| old != content) {
            std::fs::write(path, content).map_err(|e| format!("{}: {e}", path.display()))?;
        }
        Ok(())
    }
    let mut wanted: std::collections::HashSet<std::path::PathBuf> = Default::default();
    for f in ["Cargo.toml", "Cargo.lock"] {
        match std::fs::read(format!("{repo}/{f}")) {
            Ok(c) => put(std::path::Path::new(&format!("{dst}/{f}")), &c)?,
            // the lock file is not needed (harness-sync has its own); a tree without one is fine
            Err(_) if f == "Cargo.lock" => {}
            Err(e) => return Err(format!("{f}: {e}")),
        }
    }
    let direct = regex::Regex::new(r"(?P<pre>^|[^:\w])std::sync\b").unwrap();
    let grouped = regex::Regex::new(r"^(?P<ind>\s*)(?P<vis>pub(?:\([a-z]+\))? )?use std::\{(?P<body>[^{}]*)\};\s*$").unwrap();
    fn walk(dir: &std::path::Path, out: &mut Vec<std::path::PathBuf>) {
        if let Ok(rd) = std::fs::read_dir(dir) {
            for e in rd.flatten() {
                let p = e.path();
                if p.is_dir() {
                    walk(&p, out)
                } else {
                    out.push(p)
                }
            }
        }
    }
    let mut files = vec![];
    let src_root = std::path::PathBuf::from(format!("{repo}/src"));
    walk(&src_root, &mut files);
    let mut rewritten = 0usize;
    for f in files {
        let rel = f.strip_prefix(&src_root).map_err(|e| e.to_string())?;
        let to = std::path::PathBuf::from(format!("{dst}/src")).join(rel);
        if let Some(parent) = to.parent() {
            std::fs::create_dir_all(parent).map_err(|e| e.to_string())?;
        }
        if f.extension().map_or(false, |e| e == "rs") {
            let text = std::fs::read_to_string(&f).map_err(|e| e.to_string())?;
            let mut out = String::with_capacity(text.len() + 64);
            for line in text.lines() {
                if line.contains("YIELD_HOOK") {
                    out.push_str(line); // the hook's own cell stays on std
                } else if let Some(c) = grouped.captures(line) {
                    // `use std::{a::B, sync::C, sync::{D, E}}` on one line without nested braces: split the sync parts off
                    let (ind, vis) = (&c["ind"], c.name("vis").map_or("", |m| m.as_str()));
                    let mut keep = vec![];
                    let mut moved = vec![];
                    for part in c["body"].split(',').map(|x| x.trim()).filter(|x| !x.is_empty()) {
                        if let Some(rest) = part.strip_prefix("sync::") {
                            moved.push(rest.to_string())
                        } else if part == "sync" {
                            moved.push("self as sync".to_string())
                        } else {
                            keep.push(part.to_string())
                        }
                    }
                    if moved.is_empty() {
                        out.push_str(line);
                    } else {
                        rewritten += 1;
                        if !keep.is_empty() {
                            out.push_str(&format!("{ind}{vis}use std::{{{}}};\n", keep.join(", ")));
                        }
                        out.push_str(&format!("{ind}{vis}use crate::verif_sync::{{{}}};", moved.join(", ")));
                    }
                } else if direct.is_match(line) {
                    rewritten += 1;
                    out.push_str(&direct.replace_all(line, "${pre}crate::verif_sync"));
                } else {
                    out.push_str(line);
                }
                out.push('\n');
            }
            if rel == std::path::Path::new("lib.rs") {
                out.push_str("\n#[doc(hidden)]\npub mod verif_sync;\n");
            }
            put(&to, out.as_bytes())?;
        } else {
            let c = std::fs::read(&f).map_err(|e| e.to_string())?;
            put(&to, &c)?;
        }
        wanted.insert(to);
    }
    let shim = std::fs::read(format!("{root}/shim/verif_sync.rs")).map_err(|e| format!("shim/verif_sync.rs: {e}"))?;
    let shim_to = std::path::PathBuf::from(format!("{dst}/src/verif_sync.rs"));
    put(&shim_to, &shim)?;
    wanted.insert(shim_to);
    // drop files that no longer exist in /repo
    let mut present = vec![];
    walk(std::path::Path::new(&format!("{dst}/src")), &mut present);
    for p in present {
        if !wanted.contains(&p) {
            let _ = std::fs::remove_file(p);
        }
    }
    Ok(format!("{rewritten} line(s) of the library redirected from std::sync to the instrumented wrappers"))
}

/// Stage run by the instrumented build (`t2n-verif-sync C14-shim`): thread programs only, with
/// scheduling points at every synchronisation operation of the library. Prints JSON lines.
pub fn shim_child(tier: Tier) -> i32 {
    let ctx = Ctx::new("C14", tier);
    let mut acc = Acc::new();
    text2num::verif::set_yield_hook(sched::point);
    #[cfg(feature = "shim")]
    text2num::verif_sync::set_hooks(sched::point, sched::blocked);
    {
        use rayon::prelude::*;
        let parts: Vec<Acc> = langs::ALL
            .par_iter()
            .map(|l| {
                let mut a = Acc::new();
                schedules(&ctx, &mut a, *l, tier, true);
                schedules_concrete(&ctx, &mut a, *l);
                a
            })
            .collect();
        for a in parts {
            acc.merge(a);
        }
    }
    println!("{}", json!({"stat": [acc.states, acc.transitions, acc.traces], "counters": acc.extra, "instrumented": cfg!(feature = "shim")}));
    for v in &acc.viols {
        println!("{}", json!({"viol": v.to_json("C14")}));
    }
    0
}

/// `t2n-verif setup`: pre-build everything C14 builds on demand (instrumented variant, compile probe)
/// so that the first quick run does not pay for it.
pub fn setup() -> i32 {
    let root = verif_root();
    match make_shim_copy() {
        Ok(m) => println!("setup: instrumented copy generated ({m})"),
        Err(e) => println!("setup: could not generate the instrumented copy: {e}"),
    }
    for (dir, target, args) in [("harness-sync", "sync", vec!["build", "--release", "--offline", "--quiet"]), ("probes/sendsync", "probe", vec!["check", "--offline", "--quiet"])] {
        let mut a: Vec<String> = args.iter().map(|x| x.to_string()).collect();
        a.push("--target-dir".into());
        a.push(format!("{root}/target/{target}"));
        let st = Command::new("cargo").args(&a).current_dir(format!("{root}/{dir}")).env("CARGO_NET_OFFLINE", "true").stdin(Stdio::null()).status();
        println!("setup: cargo {} in {dir}: {:?}", args[0], st.map(|s| s.success()));
    }
    let st = Command::new("cargo")
        .args(["build", "--offline", "--quiet", "--target-dir", &format!("{root}/target/deeprec")])
        .current_dir(format!("{root}/probes/deeprec"))
        .env("CARGO_NET_OFFLINE", "true")
        .stdin(Stdio::null())
        .status();
    println!("setup: cargo build in probes/deeprec: {:?}", st.map(|s| s.success()));
    0
}

/// Build and run the instrumented variant; merge what it found. A failure to build the variant is
/// reported in the evidence and on stdout but is not a verdict on the property.
fn shim_stage(ctx: &Ctx, acc: &mut Acc, tier: Tier) -> String {
    let root = verif_root();
    let made = match make_shim_copy() {
        Ok(m) => m,
        Err(e) => return format!("skipped: could not generate the instrumented copy: {e}"),
    };
    let build = Command::new("cargo")
        .args(["build", "--release", "--offline", "--quiet", "--target-dir", &format!("{root}/target/sync")])
        .current_dir(format!("{root}/harness-sync"))
        .env("CARGO_NET_OFFLINE", "true")
        .stdin(Stdio::null())
        .output();
    match build {
        Ok(o) if o.status.success() => {}
        Ok(o) => {
            let err = String::from_utf8_lossy(&o.stderr);
            let first = err.lines().filter(|l| l.starts_with("error")).take(3).collect::<Vec<_>>().join(" | ");
            return format!("skipped: the instrumented copy does not build ({first})");
        }
        Err(e) => return format!("skipped: cannot run cargo: {e}"),
    }
    let mut sync_cmd = Command::new(format!("{root}/target/sync/release/t2n-verif-sync"));
    die_with_parent(&mut sync_cmd);
    let out = sync_cmd
        .args(["C14-shim", "--tier", tier.name()])
        .env("VERIF_ROOT", root)
        .stdin(Stdio::null())
        .stderr(Stdio::null())
        .output();
    let out = match out {
        Ok(o) if o.status.success() => String::from_utf8_lossy(&o.stdout).to_string(),
        Ok(o) => return format!("skipped: instrumented run exited with {}", o.status),
        Err(e) => return format!("skipped: cannot run the instrumented binary: {e}"),
    };
    let mut execs = 0u64;
    for line in out.lines() {
        let Ok(v) = serde_json::from_str::<serde_json::Value>(line) else { continue };
        if let Some(st) = v.get("stat") {
            execs = st[0].as_u64().unwrap_or(0);
            acc.states += execs;
            acc.transitions += st[1].as_u64().unwrap_or(0);
            acc.traces += st[2].as_u64().unwrap_or(0);
            if let Some(c) = v["counters"].as_object() {
                for (k, n) in c {
                    acc.count(&format!("instrumented_{k}"), n.as_u64().unwrap_or(0));
                }
            }
        }
        if let Some(x) = v.get("viol") {
            ctx.report(acc, Violation {
                lang: x["language"].as_str().unwrap_or("").into(),
                entry: "schedule_instrumented".into(),
                input: x["input"].as_str().unwrap_or("").into(),
                threshold: None,
                clause: x["clause"].as_str().unwrap_or("").into(),
                expected: x["expected"].as_str().unwrap_or("").into(),
                observed: x["observed"].as_str().unwrap_or("").into(),
            });
        }
    }
    format!("ran: {made}; {execs} schedules executed on the instrumented build")
}

/// child: run every call of every language with the real standard streams in place; print nothing.
pub fn silent_child() -> i32 {
    for l in langs::ALL {
        let lang = l.facade();
        for i in 0..NCALLS {
            let _ = call(&lang, l, i);
        }
        let (p1, p2, c) = phrases(l, false);
        for s in [p1, p2, c, String::new(), "xyzzy".into()] {
            let _ = guard(|| text2digits(&s, &lang).ok());
            let _ = guard(|| replace_numbers_in_text(&s, &lang, 0.0));
        }
        // every vocabulary word once, and every ordered pair and triple of class words (all error kinds,
        // decimals, ordinals, conjunctions, refused shifts and puts)
        for w in crate::vocab::sigma_full(l) {
            let _ = guard(|| text2digits(&w, &lang).ok());
            let _ = guard(|| replace_numbers_in_text(&format!("{w} {w}"), &lang, 0.0));
        }
        let cls = crate::vocab::sigma_cls(l);
        // extremes: decimals of every length up to 25 fraction digits after a small and after a 12-digit
        // integer part, every class word repeated up to 100 times, odd thresholds, unknown language codes
        let std = crate::spell::Var::default();
        for int in [3u64, 999_999_999_999] {
            let mut text = format!("{} {}", crate::spell::spell(l, int, std), l.sep());
            for nd in 1..=25u64 {
                text.push(' ');
                text.push_str(&crate::spell::spell(l, 1 + (nd * 7) % 9, std));
                let _ = guard(|| text2digits(&text, &lang).ok());
                for t in [0.0, 10.0, f64::NAN, f64::INFINITY, -1.0] {
                    let _ = guard(|| replace_numbers_in_text(&text, &lang, t));
                }
            }
        }
        for w in &cls {
            for r in [5usize, 17, 40, 100] {
                let text = vec![w.as_str(); r].join(" ");
                let _ = guard(|| text2digits(&text, &lang).ok());
                let _ = guard(|| replace_numbers_in_text(&text, &lang, 0.0));
                let _ = guard(|| replace_numbers_in_text(&text, &lang, 1e9));
            }
        }
        // every linking word, function word and unknown source literal next to a unit, a teen and a small ordinal
        {
            let c = crate::vocab::cls(l);
            let mut ws: Vec<String> = crate::vocab::linking_words(l).iter().map(|x| x.to_string()).collect();
            ws.extend(crate::vocab::function_words(l).iter().map(|x| x.to_string()));
            ws.extend(crate::vocab::new_source_literals(l));
            for w in &ws {
                for n in [&c.unit, &c.teen, &c.small_ord, &c.large_ord] {
                    for text in [format!("{w} {n}"), format!("{n} {w}"), format!("{n} {w} {n}")] {
                        let _ = guard(|| text2digits(&text, &lang).ok());
                        let _ = guard(|| replace_numbers_in_text(&text, &lang, 0.0));
                        let _ = guard(|| replace_numbers_in_text(&text, &lang, 10.0));
                    }
                }
            }
        }
        for code in ["", "xx", "EN", "english", "en-US", "\u{0}", "e", "zz"] {
            let _ = guard(|| text2num::get_interpreter_for(code).is_some());
        }
        for a in &cls {
            for b in &cls {
                let _ = guard(|| text2digits(&format!("{a} {b}"), &lang).ok());
                let _ = guard(|| replace_numbers_in_text(&format!("{a} {b}"), &lang, 10.0));
                for c in cls.iter().take(8) {
                    let _ = guard(|| replace_numbers_in_text(&format!("{a} {b} {c}"), &lang, 0.0));
                }
            }
        }
    }
    0
}

/// Language tags beyond the seven ISO 639-1 codes that a lookup might accept (regional variants, a few neighbouring
/// languages). On the pinned tree none resolves; a tree that adds an interpreter is exercised through these.
const EXTRA_TAGS: [&str; 24] = ["pt-BR", "pt_BR", "pt-PT", "de-AT", "de_AT", "de-CH", "fr-BE", "fr-CH", "fr-CA", "en-US", "en-GB", "es-MX", "es-419", "nl-BE", "it-CH", "ca", "ro", "gl", "sv", "da", "no", "pl", "ru", "tr"];

fn order_texts() -> Vec<String> {
    let mut v = vec![];
    for l in langs::ALL {
        let (p1, p2, c) = phrases(l, false);
        v.extend([p1, p2, c, format!("xyzzy , plugh {} xyzzy", crate::vocab::cls(l).linking)]);
    }
    v
}

/// `t2n-verif c14-order-child <tag>`: the interpreter looked up under <tag> makes the FIRST calls of this process
/// (every entry point on texts of every language); then the call alphabet runs on fresh interpreters of the seven
/// languages and the results are printed, one JSON line per language.
pub fn order_child(tag: &str) -> i32 {
    let Some(first) = text2num::get_interpreter_for(tag) else { return 0 };
    for t in order_texts() {
        let _ = guard(|| text2digits(&t, &first).ok());
        let _ = guard(|| replace_numbers_in_text(&t, &first, 0.0));
        let _ = guard(|| replace_numbers_in_text(&t, &first, 10.0));
    }
    for l in langs::ALL {
        println!("{}", json!({"lang": l.code(), "results": order_results(l)}));
    }
    0
}

/// the call alphabet, then two small numbers around every linking word and every unknown source literal
fn order_results(l: L) -> Vec<String> {
    let lang = l.facade();
    let mut got: Vec<String> = (0..NCALLS).map(|i| call(&lang, l, i)).collect();
    let c = crate::vocab::cls(l);
    for w in crate::vocab::linking_words(l).iter().map(|x| x.to_string()).chain(crate::vocab::new_source_literals(l)) {
        let text = format!("{} {w} {}", c.one, c.unit);
        got.push(guard(|| replace_numbers_in_text(&text, &lang, 10.0)).unwrap_or_else(|e| e));
    }
    got
}

pub fn run(tier: Tier) -> i32 {
    let ctx = Ctx::new("C14", tier);
    let mut acc = Acc::new();
    // every mutating DigitString operation inside the library becomes a scheduling point
    // (no-op for threads that are not under the scheduler)
    text2num::verif::set_yield_hook(sched::point);
    // 1. histories
    for l in langs::ALL {
        histories(&ctx, &mut acc, l, tier.pick(2, 3));
    }
    cross_language_histories(&ctx, &mut acc, tier.pick(2, 3));
    {
        use rayon::prelude::*;
        let parts: Vec<Acc> = langs::ALL
            .par_iter()
            .map(|l| {
                let mut a = Acc::new();
                pair_histories(&ctx, &mut a, *l, tier.pick(12, 18));
                a
            })
            .collect();
        for a in parts {
            acc.merge(a);
        }
    }
    // 2. schedules: one exploration per language, run side by side (each exploration runs exactly one
    // of its threads at a time, so seven of them fit on the machine without disturbing each other)
    {
        use rayon::prelude::*;
        let parts: Vec<Acc> = langs::ALL
            .par_iter()
            .map(|l| {
                let mut a = Acc::new();
                schedules(&ctx, &mut a, *l, tier, false);
                schedules_concrete(&ctx, &mut a, *l);
                a
            })
            .collect();
        for a in parts {
            acc.merge(a);
        }
    }
    // 2b. the same kind of exploration on a build whose own synchronisation operations are scheduling points
    let shim_note = shim_stage(&ctx, &mut acc, tier);
    println!("C14 instrumented-synchronisation stage: {shim_note}");
    // 3. Send + Sync compile probe
    acc.states += 1;
    acc.traces += 1;
    let probe = Command::new("cargo")
        .args(["check", "--offline", "--quiet", "--target-dir", &format!("{}/target/probe", verif_root())])
        .current_dir(format!("{}/probes/sendsync", verif_root()))
        .env("CARGO_NET_OFFLINE", "true")
        .stdin(Stdio::null())
        .output();
    match probe {
        Ok(o) if o.status.success() => {}
        Ok(o) => {
            let err = String::from_utf8_lossy(&o.stderr).to_string();
            if err.contains("cannot be sent between threads safely") || err.contains("cannot be shared between threads safely") || err.contains("E0277") {
                let line = err.lines().find(|l| l.contains("cannot be")).unwrap_or("trait bound error").to_string();
                ctx.report(&mut acc, Violation { lang: "-".into(), entry: "compile_probe".into(), input: "probes/sendsync".into(), threshold: None, clause: "interpreters can be sent to and shared between threads (Send + Sync)".into(), expected: "probe compiles".into(), observed: line });
            } else {
                println!("machinery: Send/Sync probe failed to build for another reason:\n{}", err.lines().take(15).collect::<Vec<_>>().join("\n"));
                return 2;
            }
        }
        Err(e) => {
            println!("machinery: cannot run cargo for the Send/Sync probe: {e}");
            return 2;
        }
    }
    // 3b. order of first use within a process: any interpreter that a lookup returns beyond the seven built-in ones
    // makes the first calls of a fresh process; the seven languages must then answer as usual
    {
        let exe = std::env::current_exe().unwrap();
        let mut extra = 0u64;
        for tag in EXTRA_TAGS {
            if !matches!(guard(|| text2num::get_interpreter_for(tag).is_some()), Ok(true)) {
                continue;
            }
            extra += 1;
            let mut cmd = Command::new(&exe);
            die_with_parent(&mut cmd);
            let out = cmd.args(["c14-order-child", tag]).stdin(Stdio::null()).stderr(Stdio::null()).output();
            let Ok(o) = out else { continue };
            for line in String::from_utf8_lossy(&o.stdout).lines() {
                let Ok(v) = serde_json::from_str::<serde_json::Value>(line) else { continue };
                let Some(l) = v["lang"].as_str().and_then(L::from_code) else { continue };
                let expected: Vec<String> = order_results(l);
                for (i, e) in expected.iter().enumerate() {
                    acc.states += 1;
                    acc.traces += 1;
                    let got = v["results"][i].as_str().unwrap_or("<missing>");
                    if got != e {
                        ctx.report(&mut acc, Violation { lang: l.code().into(), entry: "history".into(), input: format!("fresh process: first the interpreter looked up as {tag:?} handles texts of every language; then {}", if i < NCALLS { call_name(i).to_string() } else { format!("probe #{} (one <linking word or unknown literal> unit at threshold 10)", i - NCALLS) }), threshold: None, clause: "the result of a call does not depend on which interpreter was used first in the process".into(), expected: e.clone(), observed: got.to_string() });
                    }
                }
            }
        }
        acc.count("extra_interpreters_found_by_lookup", extra);
    }
    // 4. silence on the standard streams
    acc.states += 1;
    acc.traces += 1;
    let exe = std::env::current_exe().unwrap();
    let mut silent_cmd = Command::new(exe);
    die_with_parent(&mut silent_cmd);
    match silent_cmd.arg("silent-child").stdin(Stdio::null()).output() {
        Ok(o) => {
            if !o.status.success() {
                println!("machinery: silent-child exited with {}", o.status);
                return 2;
            }
            if !o.stdout.is_empty() || !o.stderr.is_empty() {
                let show = |b: &[u8]| String::from_utf8_lossy(&b[..b.len().min(200)]).to_string();
                ctx.report(&mut acc, Violation { lang: "*".into(), entry: "silent_child".into(), input: "every call of the call alphabet, every vocabulary word, every pair and triple of class words, decimals of 1..25 fraction digits, class words repeated up to 100 times, odd thresholds and language codes, 7 languages".into(), threshold: None, clause: "calls produce no output on the standard streams".into(), expected: "stdout and stderr empty".into(), observed: format!("stdout {} bytes {:?}; stderr {} bytes {:?}", o.stdout.len(), show(&o.stdout), o.stderr.len(), show(&o.stderr)) });
            }
        }
        Err(e) => {
            println!("machinery: cannot spawn silent-child: {e}");
            return 2;
        }
    }
    acc.nontrivial = acc.states;
    let cov = json!({
        "exhaustive": true,
        "rule": "(1) every history of <= k calls from a 10-call alphabet (whole calls and abandoned lazy scans) on one shared interpreter and on two interleaved interpreters, plus every merge order of the next() calls of two live lazy searches, plus every ordered pair of phrases of <= 2 words (class words and thousand-compounds) as a 2-call history; (2) for 2-thread (and some 3-thread) programs over the call alphabet sharing one interpreter, every interleaving of scheduling points (call boundaries + every library callback into harness code: stream next(), first Token/BasicAnnotate method call per token, set_nan, Replace::replace + through the cfg-guarded yield hook the entry of every mutating DigitString operation inside the library) with at most `preemption_bound` preemptions, explored by re-execution under a controlled scheduler (one thread runs at a time); every call's result compared with its sequential fresh-interpreter result; (3) compile probe for Send + Sync; (4) child process with piped stdout/stderr",
        "bounds": {"history_depth": tier.pick(2, 3), "preemption_bounds": tier.pick("1 for every program", "1 for every program; 2 for the 16 pairs over {find_numbers(P1), replace_numbers_in_stream(P1), basic_annotate+find(P2), text2digits(compound)} and one 3-thread program"), "threads": "2 (all ordered call pairs), 3 (selected)", "calls": (0..NCALLS).map(call_name).collect::<Vec<_>>()},
        "instrumented_synchronisation_stage": shim_note,
        "note": "states = histories + merge orders + schedules executed; one distinct outcome per program is expected on code without shared mutable state; detection power is demonstrated by seeded mutants (DESIGN.md)",
    });
    ctx.finish(acc, cov, vec![
        "preemption between two callbacks inside one library call is not controllable without instrumenting the library; unsynchronised accesses are outside what a cooperative scheduler sees".into(),
        "a thread that does not reach its next scheduling point within 1.5 s makes the schedule infeasible (counted, never a violation)".into(),
    ])
}
