//! C01 — cardinal round-trip (E-SWEEP).
use crate::infra::*;
use crate::langs::{self, L};
use crate::spell::{self, Var};
use serde_json::json;
use text2num::{replace_numbers_in_text, text2digits};

pub const FRAMES: [(&str, &str); 5] = [
    ("", ""),
    ("xyzzy ", " plugh"),
    ("xyzzy, ", "."),
    ("(", ")"),
    ("xyzzy\n", "\nplugh"),
];

pub const G_Q: [u32; 18] = [0, 1, 2, 3, 9, 10, 11, 16, 19, 21, 28, 71, 80, 91, 100, 101, 180, 999];
pub const G_T: [u32; 40] = [
    0, 1, 2, 3, 8, 9, 10, 11, 13, 16, 17, 19, 20, 21, 23, 28, 30, 31, 70, 71, 80, 81, 88, 90, 91, 99, 100, 101, 103,
    108, 110, 121, 180, 181, 188, 200, 280, 300, 900, 999,
];
pub const S_SMALL: [u32; 6] = [0, 1, 2, 21, 100, 999];
pub const S_QUICK: [u32; 3] = [0, 21, 999];

struct Shard {
    l: L,
    lo: u64,
    hi: u64,
    /// 0 = dense range [lo,hi) ; 1 = group product over `groups` indices [lo,hi) ; 2 = per-position sweep
    kind: u8,
    vars: Vec<Var>,
    frames: Vec<usize>,
}

fn check_one(ctx: &Ctx, acc: &mut Acc, l: L, lang: &text2num::Language, n: u64, v: Var, std_text: &str, is_std: bool, frames: &[usize]) {
    let text = if is_std { std_text.to_string() } else { spell::spell(l, n, v) };
    if !is_std && text == std_text {
        return;
    }
    check_text(ctx, acc, l, lang, n, text, frames)
}

fn check_text(ctx: &Ctx, acc: &mut Acc, l: L, lang: &text2num::Language, n: u64, text: String, frames: &[usize]) {
    let want = n.to_string();
    acc.states += 1;
    let words = text.split(' ').count() as u64;
    // validator
    acc.transitions += words;
    acc.traces += 1;
    let got = guard(|| text2digits(&text, lang));
    let obs = match &got {
        Ok(Ok(s)) => s.clone(),
        Ok(Err(e)) => format!("Err({e:?})"),
        Err(p) => p.clone(),
    };
    acc.outcome(&obs);
    if obs != want {
        ctx.report(acc, Violation {
            lang: l.code().into(),
            entry: "text2digits".into(),
            input: text.clone(),
            threshold: None,
            clause: "validate(v(n)) = decimal(n)".into(),
            expected: want.clone(),
            observed: obs,
        });
    }
    // scanner inside a sentence
    for &fi in frames {
        let (pre, suf) = FRAMES[fi];
        let s = format!("{pre}{text}{suf}");
        let exp = format!("{pre}{want}{suf}");
        for thr in [0.0, 10.0] {
            if thr > 0.0 && (n < 10 || fi != 1) {
                continue;
            }
            acc.transitions += words;
            acc.traces += 1;
            let got = guard(|| replace_numbers_in_text(&s, lang, thr));
            let obs = match got {
                Ok(s) => s,
                Err(p) => p,
            };
            if obs != exp {
                ctx.report(acc, Violation {
                    lang: l.code().into(),
                    entry: "replace_text".into(),
                    input: s.clone(),
                    threshold: Some(thr),
                    clause: "rewrite(pre v(n) suf) = pre decimal(n) suf (one number, frame untouched)".into(),
                    expected: exp.clone(),
                    observed: obs,
                });
            }
        }
    }
}

fn from_groups(g: [u32; 4]) -> u64 {
    ((g[3] as u64 * 1000 + g[2] as u64) * 1000 + g[1] as u64) * 1000 + g[0] as u64
}

pub fn run(tier: Tier) -> i32 {
    let ctx = Ctx::new("C01", tier);
    let mut shards: Vec<Shard> = vec![];
    let dense_all = tier.pick(100_000u64, 1_000_000);
    let dense_axes = tier.pick(100_000u64, 10_000_000);
    let chunk = tier.pick(12_500u64, 125_000);
    for l in langs::ALL {
        let combos = spell::all_combos(l);
        let axes: Vec<Var> = spell::axes(l).into_iter().map(|(_, v)| v).collect();
        // dense, all variant combinations, all frames below 1000
        let mut lo = 0;
        while lo < dense_all {
            let hi = (lo + chunk).min(dense_all);
            shards.push(Shard { l, lo, hi, kind: 0, vars: combos.clone(), frames: vec![1] });
            lo = hi;
        }
        shards.push(Shard { l, lo: 0, hi: 1000, kind: 0, vars: axes.clone(), frames: vec![0, 2, 3, 4] });
        // dense, standard + each axis alone
        let mut lo = dense_all;
        while lo < dense_axes {
            let hi = (lo + chunk * 4).min(dense_axes);
            shards.push(Shard { l, lo, hi, kind: 0, vars: axes.clone(), frames: vec![1] });
            lo = hi;
        }
        // group product
        let g: &[u32] = match tier {
            Tier::Quick => &G_Q,
            Tier::Thorough => &G_T,
        };
        let total = (g.len() as u64).pow(4);
        let step = total / 16;
        let mut lo = 0;
        while lo < total {
            let hi = (lo + step).min(total);
            shards.push(Shard { l, lo, hi, kind: 1, vars: axes.clone(), frames: vec![1] });
            lo = hi;
        }
        // mixed variants: the thousands group in one orthographic variant, the units group in another
        shards.push(Shard { l, lo: 0, hi: 0, kind: 3, vars: axes.clone(), frames: vec![1] });
        // per-position sweep: every value 0..999 of one group, the other groups from a small set
        for pos in 0..4u64 {
            for part in 0..4u64 {
                shards.push(Shard { l, lo: pos, hi: part, kind: 2, vars: axes.clone(), frames: vec![1] });
            }
        }
    }
    // larger shards first is irrelevant for determinism: merge is in shard order
    let gset: Vec<u32> = match tier {
        Tier::Quick => G_Q.to_vec(),
        Tier::Thorough => G_T.to_vec(),
    };
    let acc = par_shards(shards, |sh, acc| {
        let lang = sh.l.facade();
        let std = Var::default();
        let mut run_n = |n: u64, acc: &mut Acc| {
            let std_text = spell::spell(sh.l, n, std);
            for (i, v) in sh.vars.iter().enumerate() {
                let is_std = *v == std;
                let _ = i;
                check_one(&ctx, acc, sh.l, &lang, n, *v, &std_text, is_std, &sh.frames);
            }
            if n % 99_991 == 7 {
                acc.sample(json!({"lang": sh.l.code(), "n": n, "standard": std_text}));
            }
        };
        match sh.kind {
            0 => {
                for n in sh.lo..sh.hi {
                    run_n(n, acc);
                }
            }
            1 => {
                let k = gset.len() as u64;
                for idx in sh.lo..sh.hi {
                    let g = [
                        gset[(idx % k) as usize],
                        gset[((idx / k) % k) as usize],
                        gset[((idx / k / k) % k) as usize],
                        gset[((idx / k / k / k) % k) as usize],
                    ];
                    run_n(from_groups(g), acc);
                }
            }
            3 => {
                // head = a thousand-multiple spelled in variant v1, tail = the units group spelled in variant v2; only where
                // plain concatenation is what the reference speller itself does in both variants
                let l = sh.l;
                for v1 in &sh.vars {
                    for v2 in &sh.vars {
                        if v1 == v2 {
                            continue;
                        }
                        for &a in G_T.iter() {
                            for &b in G_T.iter() {
                                if a == 0 || b == 0 {
                                    continue;
                                }
                                let n = a as u64 * 1000 + b as u64;
                                let cat = |v: Var| format!("{} {}", spell::spell(l, a as u64 * 1000, v), spell::spell(l, b as u64, v));
                                if cat(*v1) != spell::spell(l, n, *v1) || cat(*v2) != spell::spell(l, n, *v2) {
                                    continue;
                                }
                                let text = format!("{} {}", spell::spell(l, a as u64 * 1000, *v1), spell::spell(l, b as u64, *v2));
                                if text == spell::spell(l, n, *v1) || text == spell::spell(l, n, *v2) {
                                    continue;
                                }
                                check_text(&ctx, acc, l, &lang, n, text, &sh.frames);
                            }
                        }
                    }
                }
            }
            _ => {
                let pos = sh.lo as usize;
                let small: &[u32] = if tier == Tier::Thorough { &S_SMALL } else { &S_QUICK };
                for val in (sh.hi as u32 * 250)..((sh.hi as u32 + 1) * 250) {
                    for &a in small {
                        for &b in small {
                            for &c in small {
                                let others = [a, b, c];
                                let mut g = [0u32; 4];
                                let mut oi = 0;
                                for p in 0..4 {
                                    if p == pos {
                                        g[p] = val;
                                    } else {
                                        g[p] = others[oi];
                                        oi += 1;
                                    }
                                }
                                run_n(from_groups(g), acc);
                            }
                        }
                    }
                }
            }
        }
    });
    let mut acc = acc;
    acc.nontrivial = acc.states;
    let cov = json!({
        "exhaustive": true,
        "mixed_variants": "thousands group (40 class values) in one orthographic variant x units group (40) in another, every ordered pair of variant axes, where plain concatenation is what the reference speller does in both",
        "rule": "every (language, n, spelling variant) with a rendering distinct from the standard one is a case; each case = validator call + scanner calls inside sentence frames; non-trivial = all (every case spells a number with the reference speller and round-trips it through the real code)",
        "bounds": {
            "dense_all_variant_combinations_below": dense_all,
            "dense_standard_plus_single_axis_below": dense_axes,
            "group_product": format!("{}^4 three-digit groups (numbers up to 10^12)", gset.len()),
            "per_position_sweep": format!("each group position x all 1000 values x other groups from {:?}", if tier == Tier::Thorough { S_SMALL.to_vec() } else { S_QUICK.to_vec() }),
            "frames": FRAMES.iter().map(|(a, b)| format!("{a:?}+n+{b:?}")).collect::<Vec<_>>(),
            "thresholds": [0.0, 10.0],
        },
        "languages": langs::ALL.iter().map(|l| l.code()).collect::<Vec<_>>(),
        "variant_axes": langs::ALL.iter().map(|l| json!({l.code(): spell::axes(*l).iter().map(|(n, _)| *n).collect::<Vec<_>>()})).collect::<Vec<_>>(),
    });
    ctx.finish(acc, cov, vec![
        "the reference spellers (harness/src/spell.rs) are the specification of 'standard spelling and accepted variants'".into(),
        "numbers above the dense range are covered through the group product only".into(),
    ])
}
