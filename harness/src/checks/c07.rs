//! C07 — scanner and validator agree; at threshold 0 no number is left spelled out (E-SEQ, differential).
use crate::explore;
use crate::infra::*;
use crate::langs::{self, L};
use crate::stream::{self, HTok};
use crate::vocab;
use serde_json::json;
use text2num::text2digits;

fn t2d(s: &str, lang: &text2num::Language) -> String {
    match guard(|| text2digits(s, lang)) {
        Ok(Ok(d)) => format!("Ok({d})"),
        Ok(Err(_)) => "Err".to_string(),
        Err(p) => p,
    }
}

fn one_stream(ctx: &Ctx, acc: &mut Acc, l: L, lang: &text2num::Language, syms: &[&str]) {
    acc.states += 1;
    // a leading '~' marks a token that declares itself unrelated to its predecessor
    let toks: Vec<HTok> = syms.iter().enumerate().map(|(i, w)| if w.len() > 1 && w.starts_with('~') { HTok::decorated(i, w) } else { HTok::new(i, w) }).collect();
    let hinted = toks.iter().any(|t| t.sep);
    acc.transitions += toks.len() as u64;
    let occs = match guard(|| stream::find(&toks, lang, 0.0)) {
        Ok(o) => o,
        Err(_) => return, // totality is C03's business
    };
    acc.outcome(&occs);
    let input = || serde_json::to_string(&syms).unwrap();
    let mark = l.mark();
    // clause 1: every non-decimal occurrence validates to the same digit text
    for o in &occs {
        if o.end > toks.len() || o.start >= o.end {
            continue; // C06
        }
        let is_decimal = o.text.contains(mark) && o.text.chars().next().map_or(false, |c| c.is_ascii_digit()) && {
            // "3,5" / "3.5": digits mark digits
            let mut parts = o.text.splitn(2, mark);
            let a = parts.next().unwrap_or("");
            let b = parts.next().unwrap_or("");
            !a.is_empty() && a.bytes().all(|c| c.is_ascii_digit()) && b.bytes().next().map_or(false, |c| c.is_ascii_digit())
        };
        if is_decimal {
            continue;
        }
        acc.nontrivial += 1;
        let words: Vec<&str> = toks[o.start..o.end].iter().map(|t| t.text.as_str()).filter(|w| !stream::is_ws(w) && *w != "-").collect();
        let phrase = words.join(" ");
        acc.traces += 1;
        acc.transitions += words.len() as u64;
        let got = t2d(&phrase, lang);
        let want = format!("Ok({})", o.text);
        if got != want {
            ctx.report(acc, Violation {
                lang: l.code().into(),
                entry: "find_tokens".into(),
                input: input(),
                threshold: Some(0.0),
                clause: "validate(words(o.span)) = Ok(o.text)".into(),
                expected: format!("occurrence {} whose own words {:?} validate to {}", o.show(), phrase, o.text),
                observed: format!("validate({phrase:?}) = {got}"),
            });
        }
    }
    // clause 2: a phrase the validator accepts is seen by the scanner as exactly one number with the same digits
    // (punctuation symbols stay in the phrase: a validator that looks through them accepts what the scanner splits)
    let no_blank_symbol = syms.iter().all(|w| !w.trim().is_empty());
    if no_blank_symbol && !hinted {
        let phrase = syms.join(" ");
        acc.traces += 1;
        acc.transitions += syms.len() as u64;
        let v = t2d(&phrase, lang);
        if let Some(d) = v.strip_prefix("Ok(").and_then(|x| x.strip_suffix(')')) {
            if !(occs.len() == 1 && occs[0].text == d) {
                ctx.report(acc, Violation {
                    lang: l.code().into(),
                    entry: "text2digits".into(),
                    input: phrase.clone(),
                    threshold: Some(0.0),
                    clause: "validate(p) = Ok(d) => scan(p,0) = [one occurrence with text d]".into(),
                    expected: format!("scanner: exactly one occurrence with text {d}"),
                    observed: format!("validate = Ok({d}); scan = {}", stream::show_occs(&occs)),
                });
            }
        }
    }
    // clause 2c: "two numbers that do not combine are never validated as one", the instance that needs no speller:
    // a phrase that names the thousands twice (the bare thousand word, or a word containing it) is two numbers
    if !hinted {
        let th = vocab::cls(l).thousand;
        let th_stem: &str = match l {
            L::It => "mil", // mille / mila / -mila
            _ => th.as_str(),
        };
        let high = |w: &str| -> bool {
            let w = w.to_lowercase();
            ["milli", "millón", "millon", "milh", "milio", "miljo", "miljard", "miliard", "bill", "bilh", "bili", "biljo"].iter().any(|s| w.contains(s))
        };
        let names_thousands = |w: &str| -> bool { w.to_lowercase().contains(th_stem) && !high(w) };
        // two words naming the thousands with no million / milliard word between them
        let mut naming = 0;
        let mut last: Option<usize> = None;
        for (i, w) in syms.iter().enumerate() {
            if names_thousands(w) {
                if let Some(j) = last {
                    if !syms[j + 1..i].iter().any(|x| high(x)) {
                        naming = 2;
                    }
                }
                last = Some(i);
            }
        }
        if naming >= 2 {
            let phrase = syms.join(" ");
            acc.traces += 1;
            let v = t2d(&phrase, lang);
            if v.starts_with("Ok(") {
                ctx.report(acc, Violation {
                    lang: l.code().into(),
                    entry: "text2digits".into(),
                    input: phrase,
                    threshold: None,
                    clause: "two numbers that do not combine are never validated as one: a phrase naming the thousands twice with no higher scale word in between".into(),
                    expected: "Err".into(),
                    observed: v,
                });
            }
        }
    }
    // clause 2b: the same on the TEXT path (tokenizer, annotation): a text the validator accepts — a lone hyphen
    // between blanks included — is seen there as exactly one number with the same digits. Ambiguity words are left
    // out: the annotation of the text path sets them aside by design.
    if !hinted && syms.iter().any(|w| *w == "-" || w.chars().any(|c| JOINERS.contains(&c))) && syms.iter().all(|w| *w == "-" || w.chars().any(|c| c.is_alphanumeric())) {
        let text = syms.join(" ");
        acc.traces += 1;
        let v = t2d(&text, lang);
        if let Some(d) = v.strip_prefix("Ok(").and_then(|x| x.strip_suffix(')')) {
            if let Ok((_, tocc)) = guard(|| stream::find_in_text(&text, lang, 0.0)) {
                if !(tocc.len() == 1 && tocc[0].text == d) {
                    ctx.report(acc, Violation {
                        lang: l.code().into(),
                        entry: "text2digits".into(),
                        input: text.clone(),
                        threshold: Some(0.0),
                        clause: "validate(p) = Ok(d) => scan(text p, 0) = [one occurrence with text d]".into(),
                        expected: format!("text scanner: exactly one occurrence with text {d}"),
                        observed: format!("validate = Ok({d}); scan = {}", stream::show_occs(&tocc)),
                    });
                }
            }
        }
    }
    // clause 3: at threshold 0 every word that is a number on its own lies inside an occurrence
    for (i, t) in toks.iter().enumerate() {
        if occs.iter().any(|o| o.start <= i && i < o.end) || !t.text.chars().any(|c| c.is_alphanumeric()) {
            continue;
        }
        acc.traces += 1;
        acc.transitions += 1;
        let v = t2d(&t.text, lang);
        if v.starts_with("Ok(") {
            ctx.report(acc, Violation {
                lang: l.code().into(),
                entry: "find_tokens".into(),
                input: input(),
                threshold: Some(0.0),
                clause: "a word outside all occurrences at threshold 0 is not a number on its own".into(),
                expected: format!("token #{i} {:?} inside an occurrence (it validates to {v})", t.text),
                observed: format!("scan = {}", stream::show_occs(&occs)),
            });
        }
    }
}

/// characters that may stand where a compound number has its hyphen or blank: typographic hyphens and dashes, the
/// minus sign, the soft hyphen, and a few ASCII signs
pub const JOINERS: [char; 16] = ['\u{2010}', '\u{2011}', '\u{2012}', '\u{2013}', '\u{2014}', '\u{2212}', '\u{ad}', '\u{2043}', '\u{fe63}', '\u{ff0d}', '_', '/', '+', '\u{b7}', '\u{2019}', '~'];

pub fn run(tier: Tier) -> i32 {
    let ctx = Ctx::new("C07", tier);
    let (kf, kc) = tier.pick((2usize, 5usize), (3, 6));
    let rmax = tier.pick(40usize, 300usize);
    let mut total = Acc::new();
    let mut sizes = vec![];
    for l in langs::ALL {
        let lang = l.facade();
        let mut full = vocab::sigma_full(l);
        full.push(" ".to_string());
        let cls: Vec<String> = vocab::sigma_cls(l).into_iter().take(tier.pick(16, 17)).collect();
        sizes.push(json!({"lang": l.code(), "sigma_full": full.len(), "sigma_cls": cls.len()}));
        total.merge(explore::all_sequences(&full, kf, |syms, acc| one_stream(&ctx, acc, l, &lang, syms)));
        total.merge(explore::all_sequences2(&cls, kc, |syms, acc| {
            if syms.len() > kf {
                one_stream(&ctx, acc, l, &lang, syms)
            }
        }));
        // the whole class alphabet (scale ordinals, large scales, compound) at a smaller depth
        let cls_all = vocab::sigma_cls(l);
        total.merge(explore::all_sequences2(&cls_all, 4, |syms, acc| {
            if syms.len() > kf && syms.iter().any(|s| !cls.iter().any(|c| c == s)) {
                one_stream(&ctx, acc, l, &lang, syms)
            }
        }));
        // streams with 'unrelated to my predecessor' hints: clauses 1 and 3 must hold on them as well
        let mut hinted: Vec<String> = cls.iter().filter(|w| w.chars().any(|c| c.is_alphabetic())).take(8).cloned().collect();
        let plain = hinted.clone();
        hinted.extend(plain.iter().map(|w| format!("~{w}")));
        total.merge(explore::all_sequences2(&hinted, tier.pick(3, 4), |syms, acc| {
            if syms.iter().any(|s| s.starts_with('~')) {
                one_stream(&ctx, acc, l, &lang, syms)
            }
        }));
        // function words (articles, half, dozen, pair ...) and the word-like literals of the current source tree that no
        // alphabet knows, with a small core of number words, depth 3
        {
            let c = vocab::cls(l);
            let mut fw: Vec<String> = vec![c.one.clone(), c.tens.clone(), c.hundred.clone(), c.ordinary.clone(), c.conj.clone(), ",".to_string()];
            for w in vocab::function_words(l).iter().map(|x| x.to_string()).chain(vocab::new_source_literals(l).into_iter().filter(|w| !w.contains(' '))) {
                if !fw.contains(&w) {
                    fw.push(w);
                }
            }
            total.merge(explore::all_sequences2(&fw, 3, |syms, acc| {
                if syms.len() == 3 {
                    one_stream(&ctx, acc, l, &lang, syms)
                }
            }));
        }
        // two number words joined by something other than the ASCII hyphen (typographic hyphens and dashes, minus sign,
        // soft hyphen ...): whatever the validator makes of such a word, the scanners (token and text path) agree
        {
            let c = vocab::cls(l);
            let mut acc_j = Acc::new();
            for (w1, w2) in [(&c.tens, &c.unit), (&c.unit, &c.hundred), (&c.hundred, &c.unit), (&c.tens, &c.one), (&c.unit, &c.thousand), (&c.unit, &c.tens)] {
                for j in JOINERS {
                    for glue in [format!("{w1}{j}{w2}"), format!("{w1}{j}"), format!("{j}{w2}")] {
                        let a3: Vec<String> = vec![glue.clone(), c.one.clone(), c.hundred.clone(), c.unit.clone()];
                        acc_j.merge(explore::all_sequences2(&a3, 2, |syms, acc| {
                            if syms.iter().any(|s| *s == glue) {
                                one_stream(&ctx, acc, l, &lang, syms)
                            }
                        }));
                    }
                }
            }
            total.merge(acc_j);
        }
        // long streams: every pattern of <= 2 class symbols repeated r times
        total.merge(explore::all_repetitions(&cls, 2, 2..=rmax, |syms, acc| one_stream(&ctx, acc, l, &lang, syms)));
        total.sample(json!({"lang": l.code(), "stream": cls.iter().take(5).collect::<Vec<_>>()}));
    }
    let cov = json!({
        "exhaustive": true,
        "rule": "every token stream of length <= k over the alphabet (no hints, no annotation, threshold 0): scanner vs validator compared on three clauses; non-trivial = non-decimal occurrences re-validated",
        "bounds": {"sigma_full_depth": kf, "sigma_cls_depth": kc, "whole_sigma_cls_depth": 4, "long_streams": {"pattern_depth": 2, "repetitions_up_to": rmax}, "joined_words": "6 pairs of number words x 16 joiners (typographic hyphens, dashes, minus, soft hyphen, _ / + middle dot, right quote, tilde), joined / trailing / leading, in streams <= 2 with one, hundred, unit; token and text path", "hinted_streams": "8 class words, each plain or '~' (unrelated to its predecessor), depth <= 3 (thorough 4); clauses 1 and 3"},
        "alphabets": sizes,
    });
    ctx.finish(total, cov, vec![
        "words(span) drops only whitespace-only tokens and a lone '-' (the two token kinds the scanner is documented to see through)".into(),
        "clause 2 compares the number of occurrences and the digit text, not the span (validators accept a leading conjunction the scanner leaves outside)".into(),
    ])
}
