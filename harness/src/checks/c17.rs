//! C17 — whitespace kind and amount never matter (E-SEQ + metamorphic substitution).
use crate::explore;
use crate::infra::*;
use crate::langs::{self, L};
use crate::stream;
use crate::vocab;
use serde_json::json;
use text2num::{replace_numbers_in_text, text2digits};

pub const WS: [&str; 16] = [" ", "  ", "\t", "\n", "\r\n", "\u{a0}", "\u{2009}", "\u{202f}", "\u{3000}", " \t ", "\u{85}", "\u{2028}", "\u{1680}", "\u{b}", "\n\n", "\n \n"];
/// very long runs (amount of whitespace): 1 100 spaces, 400 ideographic spaces (1 200 bytes), 5 000 newlines
pub fn long_ws() -> Vec<String> {
    vec![" ".repeat(1100), "\u{3000}".repeat(400), "\n".repeat(5000)]
}

/// positions (byte ranges) of the maximal whitespace runs of `s`
fn ws_runs(s: &str) -> Vec<(usize, usize)> {
    let mut runs = vec![];
    let mut start: Option<usize> = None;
    for (i, c) in s.char_indices() {
        if c.is_whitespace() {
            if start.is_none() {
                start = Some(i);
            }
        } else if let Some(st) = start.take() {
            runs.push((st, i));
        }
    }
    if let Some(st) = start {
        runs.push((st, s.len()));
    }
    runs
}

fn substitute(s: &str, runs: &[(usize, usize)], which: Option<usize>, w: &str) -> String {
    let mut out = String::new();
    let mut pos = 0;
    for (k, (a, b)) in runs.iter().enumerate() {
        out.push_str(&s[pos..*a]);
        if which.map_or(true, |x| x == k) {
            out.push_str(w);
        } else {
            out.push_str(&s[*a..*b]);
        }
        pos = *b;
    }
    out.push_str(&s[pos..]);
    out
}

type Sig = Vec<(String, u64, bool)>;
fn sig(occs: &[stream::Occ]) -> Sig {
    occs.iter().map(|o| (o.text.clone(), o.value_bits, o.is_ordinal)).collect()
}

fn one_text(ctx: &Ctx, acc: &mut Acc, l: L, lang: &text2num::Language, syms: &[&str]) {
    acc.states += 1;
    let base = syms.join(" ");
    let runs = ws_runs(&base);
    let base_t2d = guard(|| text2digits(&base, lang).ok());
    let base_occ: Vec<Option<Sig>> = [0.0, 10.0].iter().map(|&t| guard(|| stream::find_in_text(&base, lang, t).1).ok().map(|o| sig(&o))).collect();
    let mut variants: Vec<String> = vec![];
    for w in WS {
        if !runs.is_empty() {
            if w != " " {
                variants.push(substitute(&base, &runs, None, w));
            }
            if runs.len() > 1 && w != " " {
                for k in 0..runs.len() {
                    variants.push(substitute(&base, &runs, Some(k), w));
                }
            }
        }
        variants.push(format!("{w}{base}"));
        variants.push(format!("{base}{w}"));
    }
    // amount: very long runs, on the short sequences only
    if syms.len() <= 2 {
        for w in long_ws() {
            if !runs.is_empty() {
                variants.push(substitute(&base, &runs, None, &w));
            }
            variants.push(format!("{w}{base}"));
            variants.push(format!("{base}{w}"));
        }
    }
    for v in variants {
        acc.nontrivial += 1;
        acc.traces += 1;
        let got = guard(|| text2digits(&v, lang).ok());
        if got != base_t2d {
            ctx.report(acc, Violation { lang: l.code().into(), entry: "text2digits".into(), input: v.clone(), threshold: None, clause: "validate(w(s)) = validate(s)".into(), expected: format!("{base_t2d:?}"), observed: format!("{got:?}") });
        }
        for (ti, &t) in [0.0, 10.0].iter().enumerate() {
            acc.transitions += 2 * syms.len() as u64;
            acc.traces += 2;
            let r = guard(|| {
                let (tk, occ) = stream::find_in_text(&v, lang, t);
                let out = replace_numbers_in_text(&v, lang, t);
                (tk.iter().map(|x| x.text.clone()).collect::<Vec<_>>(), occ, out)
            });
            let Ok((toks, occ, out)) = r else { continue };
            if t == 10.0 {
                acc.outcome(&sig(&occ));
            }
            if Some(sig(&occ)) != base_occ[ti] {
                ctx.report(acc, Violation { lang: l.code().into(), entry: "find_text".into(), input: v.clone(), threshold: Some(t), clause: "occurrence texts/values(w(s)) = occurrence texts/values(s)".into(), expected: format!("{:?}", base_occ[ti]), observed: format!("{:?}", sig(&occ)) });
                continue;
            }
            let want = stream::splice(&toks, &occ);
            if out != want {
                ctx.report(acc, Violation { lang: l.code().into(), entry: "replace_text".into(), input: v.clone(), threshold: Some(t), clause: "outside rewritten spans the whitespace is passed through untouched".into(), expected: want, observed: out });
            }
        }
    }
}

pub fn alphabet(l: L, n: usize) -> Vec<String> {
    let c = vocab::cls(l);
    let mut v = vec![c.one, c.tens, c.ordinary, c.unit];
    match l {
        L::En => v.push("o".into()),
        L::Fr => {
            v.push("neuf".into());
            v.push("un".into());
        }
        _ => {}
    }
    v.extend([c.hundred, c.conj, ",".to_string(), "-".to_string(), c.sep, c.zero, c.small_ord, c.linking, ".".to_string(), c.thousand, c.teen]);
    if let Some(x) = c.compound {
        v.push(x);
    }
    let mut out: Vec<String> = vec![];
    for w in v {
        if !out.contains(&w) {
            out.push(w);
        }
    }
    out.truncate(n);
    out
}

pub fn run(tier: Tier) -> i32 {
    let ctx = Ctx::new("C17", tier);
    let (n, k) = tier.pick((15usize, 4usize), (13, 5));
    let mut total = Acc::new();
    let mut alphas = vec![];
    for l in langs::ALL {
        let lang = l.facade();
        let a = alphabet(l, n);
        alphas.push(json!({"lang": l.code(), "alphabet": a}));
        total.merge(explore::all_sequences2(&a, k, |syms, acc| one_text(&ctx, acc, l, &lang, syms)));
        if tier == Tier::Thorough {
            // the quick tier's wider alphabet at its depth (the deep stage above uses a narrower one)
            let aq = alphabet(l, 15);
            total.merge(explore::all_sequences2(&aq, 4, |syms, acc| {
                if syms.iter().any(|s| !a.iter().any(|x| x == s)) {
                    one_text(&ctx, acc, l, &lang, syms)
                }
            }));
        }
        // sentence ends and multi-word expressions: a word with a glued full stop, the ambiguity words and
        // the parts of the interpreter's two-word linking entries
        let c = vocab::cls(l);
        let mut b: Vec<String> = vec![c.one.clone(), c.unit.clone(), c.ordinary.clone(), "plugh.".to_string(), c.linking.clone()];
        match l {
            L::En => b.push("o".into()),
            L::Fr => b.extend(["neuf", "un", "le"].iter().map(|x| x.to_string())),
            _ => {}
        }
        for e in vocab::linking_words(l) {
            if e.contains(' ') {
                for w in e.split(' ') {
                    b.push(w.to_string());
                }
            }
        }
        // a hyphen glued in front of a unit (dash-bulleted lists)
        b.push(format!("-{}", c.unit));
        // a word cut at a line end: the tens word with a trailing hyphen
        b.push(format!("{}-", c.tens));
        // symbols the current source tree mentions and the pinned one did not ('&', '%' ...), with the hundred word
        let syms_new = vocab::new_symbol_literals(l);
        if !syms_new.is_empty() {
            b.push(c.hundred.clone());
            b.extend(syms_new);
        }
        let mut b2: Vec<String> = vec![];
        for w in b {
            if !b2.contains(&w) {
                b2.push(w);
            }
        }
        alphas.push(json!({"lang": l.code(), "sentence_and_expression_alphabet": b2}));
        total.merge(explore::all_sequences2(&b2, 4, |syms, acc| one_text(&ctx, acc, l, &lang, syms)));
        // very large numbers (the digit form is longer than the words): pairs and triples of big-number words
        let big = vocab::big_number_words(l, &lang);
        total.merge(explore::all_sequences2(&big, 3, |syms, acc| {
            if syms.len() >= 2 {
                one_text(&ctx, acc, l, &lang, syms)
            }
        }));
        // the function words that sit next to numbers (articles, half, dozen, pair ...), depth 3 with one, unit, tens
        let mut fw: Vec<String> = vec![c.one.clone(), c.unit.clone(), c.tens.clone(), ",".to_string()];
        for w in vocab::function_words(l) {
            if !fw.iter().any(|x| x == w) {
                fw.push(w.to_string());
            }
        }
        total.merge(explore::all_sequences2(&fw, 3, |syms, acc| one_text(&ctx, acc, l, &lang, syms)));
        // punctuation glued to a number word (quotes, brackets, sentence marks), in front, behind and around it: the end
        // of the text and a blank after it must be the same thing to the tokenizer
        {
            let mut acc_g = Acc::new();
            for p in ["'", "\"", "(", ")", ",", ";", "!", "?", ":", "\u{2026}", "\u{ab}", "\u{bb}", "\u{2019}", "`", "*", "_", "/", "%", "&", "''", "'."] {
                for base in [&c.unit, &c.tens] {
                    for d in [format!("{base}{p}"), format!("{p}{base}"), format!("{p}{base}{p}")] {
                        let a3: Vec<String> = vec![d.clone(), c.one.clone(), c.ordinary.clone()];
                        acc_g.merge(explore::all_sequences2(&a3, 3, |syms, acc| {
                            if syms.iter().any(|s| *s == d) {
                                one_text(&ctx, acc, l, &lang, syms)
                            }
                        }));
                    }
                }
            }
            total.merge(acc_g);
        }
        total.sample(json!({"lang": l.code(), "text": format!("{}\u{a0}{}\t{}", a[1], a[0], a[2])}));
    }
    let cov = json!({
        "exhaustive": true,
        "rule": "every word sequence of length <= k joined by single spaces; every maximal whitespace run replaced uniformly and one at a time by each of 16 whitespace strings, and each prepended/appended; validator, occurrence texts/values and pass-through compared with the original at thresholds 0 and 10; non-trivial = substituted variants",
        "bounds": {"alphabet": n, "depth": k, "whitespace_kinds": WS.iter().map(|w| w.escape_unicode().to_string()).collect::<Vec<_>>(), "long_runs_on_sequences_of_at_most_2": "1100 spaces, 400 ideographic spaces, 5000 newlines", "glued_punctuation_stage": "21 punctuation strings in front of / behind / around the unit and the tens word; all sequences <= 3 with one and an ordinary word"},
        "alphabets": alphas,
    });
    ctx.finish(total, cov, vec!["only characters with the Unicode White_Space property count as whitespace (U+200B is not)".into()])
}
