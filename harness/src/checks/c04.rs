//! C04 — ordinal round-trip (E-SWEEP).
use crate::infra::*;
use crate::langs::{self, L};
use crate::ordspell;
use crate::stream;
use serde_json::json;
use text2num::{replace_numbers_in_text, text2digits};

struct Shard {
    l: L,
    lo: u64,
    hi: u64,
    /// extra structured ranks (instead of the range) when non-empty
    list: Vec<u64>,
}

pub fn run(tier: Tier) -> i32 {
    let ctx = Ctx::new("C04", tier);
    let cap = tier.pick(100_000u64, 1_000_000);
    let chunk = tier.pick(5_000u64, 25_000);
    let mut shards = vec![];
    for l in langs::ALL {
        let max = ordspell::max_rank(l).min(cap);
        let mut lo = 1;
        while lo <= max {
            let hi = (lo + chunk).min(max + 1);
            shards.push(Shard { l, lo, hi, list: vec![] });
            lo = hi;
        }
        // the top of the supported range is always included
        if ordspell::max_rank(l) > cap {
            shards.push(Shard { l, lo: ordspell::max_rank(l), hi: ordspell::max_rank(l) + 1, list: vec![] });
            // structured ranks above the dense range: thousands group x units group over the class set
            let mut list = vec![];
            for a in crate::checks::c01::G_T {
                for b in crate::checks::c01::G_Q {
                    let n = a as u64 * 1000 + b as u64;
                    if n > cap && n <= ordspell::max_rank(l) {
                        list.push(n);
                    }
                }
            }
            // structured ranks from a million on (where the speller reaches them): millions group x the rest
            for m in [1u64, 2, 3, 10, 11, 21, 99, 100, 101, 110, 200, 300, 900, 999] {
                for rest in [0u64, 1, 2, 21, 100, 101, 1000, 1001, 2000, 21_000, 100_000, 100_001, 999_999] {
                    let n = m * 1_000_000 + rest;
                    if n > cap && n <= ordspell::max_rank(l) {
                        list.push(n);
                    }
                }
            }
            for part in list.chunks(80) {
                shards.push(Shard { l, lo: 0, hi: 0, list: part.to_vec() });
            }
        }
    }
    let mut acc = par_shards(shards, |sh, acc| {
        let l = sh.l;
        let lang = l.facade();
        let axes = ordspell::ord_axes(l);
        let ranks: Vec<u64> = if sh.list.is_empty() { (sh.lo..sh.hi).collect() } else { sh.list.clone() };
        for n in ranks {
            let mut seen_texts: Vec<String> = vec![];
            for (_, v) in &axes {
                for f in ordspell::ord_forms(l, n, *v) {
                    if seen_texts.contains(&f.text) {
                        continue;
                    }
                    seen_texts.push(f.text.clone());
                    acc.states += 1;
                    let want = format!("{n}{}", f.marker);
                    let words = f.text.split(' ').count() as u64;
                    acc.transitions += 3 * words;
                    acc.traces += 3;
                    // validator
                    let got = match guard(|| text2digits(&f.text, &lang)) {
                        Ok(Ok(s)) => s,
                        Ok(Err(e)) => format!("Err({e:?})"),
                        Err(p) => p,
                    };
                    acc.outcome(&got);
                    if got != want {
                        ctx.report(acc, Violation {
                            lang: l.code().into(),
                            entry: "text2digits".into(),
                            input: f.text.clone(),
                            threshold: None,
                            clause: format!("validate(ordinal(n), {}) = digits + marker", f.infl),
                            expected: want.clone(),
                            observed: got,
                        });
                    }
                    // scanner inside a sentence
                    let s = format!("xyzzy {} plugh", f.text);
                    let exp = format!("xyzzy {want} plugh");
                    let got = match guard(|| replace_numbers_in_text(&s, &lang, 0.0)) {
                        Ok(s) => s,
                        Err(p) => p,
                    };
                    let plain_frame_ok = got == exp;
                    if got != exp {
                        ctx.report(acc, Violation {
                            lang: l.code().into(),
                            entry: "replace_text".into(),
                            input: s.clone(),
                            threshold: Some(0.0),
                            clause: format!("rewrite(ordinal(n), {}) = digits + marker, frame untouched", f.infl),
                            expected: exp,
                            observed: got,
                        });
                    }
                    // occurrence: flagged ordinal, value n
                    if let Ok((_, occs)) = guard(|| stream::find_in_text(&s, &lang, 0.0)) {
                        let ok = occs.len() == 1 && occs[0].is_ordinal && occs[0].value() == n as f64 && occs[0].text == want;
                        if !ok {
                            ctx.report(acc, Violation {
                                lang: l.code().into(),
                                entry: "find_text".into(),
                                input: s.clone(),
                                threshold: Some(0.0),
                                clause: "one occurrence, flagged ordinal, value = n".into(),
                                expected: format!("one occurrence text={want} value={n} is_ordinal=true"),
                                observed: stream::show_occs(&occs),
                            });
                        }
                    }
                    // French: an article and a noun in front of an ordinal whose first word is the ambiguous 'neuf'
                    // (neuf centième, neuf millième ...): the next word being a number word, 'neuf' is the number
                    if l == L::Fr && plain_frame_ok && f.text.starts_with("neuf ") {
                        for pre in ["le xyzzy ", "du xyzzy ", "un xyzzy plugh "] {
                            acc.traces += 1;
                            let s = format!("{pre}{} plugh", f.text);
                            let exp = format!("{}{want} plugh", pre.replace("un ", "1 "));
                            let got = guard(|| replace_numbers_in_text(&s, &lang, 0.0)).unwrap_or_else(|p| p);
                            if got != exp {
                                ctx.report(acc, Violation { lang: l.code().into(), entry: "replace_text".into(), input: s, threshold: Some(0.0), clause: format!("rewrite(article noun ordinal(n), {}): 'neuf' followed by a number word is the number", f.infl), expected: exp, observed: got });
                            }
                        }
                    }
                    // two more frames for the smaller ranks: the ordinal followed by the decimal-separator word and a
                    // digit (an ordinal is not the integral part of a decimal), and the ordinal spoken after a pause
                    // that follows another number (token stream, first word of the ordinal flagged 'unrelated')
                    // (only where the plain frame holds: a spelling that fails there is reported once, not three times)
                    if plain_frame_ok && (n <= 300 || n % 37 == 0) {
                        let c = crate::vocab::cls(l);
                        let digit = crate::spell::spell(l, 5, crate::spell::Var::default());
                        acc.traces += 2;
                        let s = format!("xyzzy {} {} {digit} plugh", f.text, l.sep());
                        let exp = format!("xyzzy {want} {} 5 plugh", l.sep());
                        let got = guard(|| replace_numbers_in_text(&s, &lang, 0.0)).unwrap_or_else(|p| p);
                        if got != exp {
                            ctx.report(acc, Violation { lang: l.code().into(), entry: "replace_text".into(), input: s, threshold: Some(0.0), clause: format!("rewrite(ordinal(n) separator digit, {}) keeps the ordinal: digits + marker, then the separator word, then the digit", f.infl), expected: exp, observed: got });
                        }
                        let mut syms: Vec<String> = vec!["xyzzy".into(), c.tens.clone()];
                        for (i, w) in f.text.split(' ').enumerate() {
                            syms.push(if i == 0 { format!("~{w}") } else { w.to_string() });
                        }
                        syms.push("plugh".into());
                        let toks: Vec<stream::HTok> = syms.iter().enumerate().map(|(i, w)| stream::HTok::decorated(i, w)).collect();
                        if let Ok(occs) = guard(|| stream::find(&toks, &lang, 0.0)) {
                            let ok = occs.len() == 2 && occs[0].start == 1 && occs[0].end == 2 && occs[1].start == 2 && occs[1].end == toks.len() - 1 && occs[1].is_ordinal && occs[1].text == want && occs[1].value() == n as f64;
                            if !ok {
                                ctx.report(acc, Violation { lang: l.code().into(), entry: "find_tokens".into(), input: serde_json::to_string(&syms).unwrap(), threshold: Some(0.0), clause: "an ordinal spoken after a pause that follows another number is still that ordinal".into(), expected: format!("two occurrences: the tens word alone, then text={want} value={n} is_ordinal=true over the ordinal's words"), observed: stream::show_occs(&occs) });
                            }
                        }
                    }
                    if n % 7919 == 0 && acc.samples.len() < 6 {
                        acc.sample(json!({"lang": l.code(), "n": n, "inflection": f.infl, "spelling": f.text, "expected": want}));
                    }
                }
            }
        }
    });
    acc.nontrivial = acc.states;
    let cov = json!({
        "exhaustive": true,
        "rule": "every rank n in the range x every inflection x every ordinal spelling variant (distinct renderings only), through validator, scanner (threshold 0, inside a sentence) and occurrence fields",
        "bounds": {"ranks": format!("1..={cap} (es, pt: 1..=1999) plus the top of the supported range and 40 x 16 structured ranks (thousands group x units group) above the dense bound"), "frame": "xyzzy <ordinal> plugh", "extra_frames_for_ranks_up_to_300_and_every_37th": ["xyzzy <ordinal> <separator word> <five> plugh", "token stream: xyzzy <tens> ~<ordinal> plugh"]},
        "inflections": {"en": "sg, pl(th/rd)", "fr": "sg, pl, premier m/f sg/pl", "es": "m/f sg/pl, apocope primer/tercer", "pt": "m/f sg/pl", "it": "m/f sg/pl", "de": "-e -er -en -es -em", "nl": "none"},
    });
    ctx.finish(acc, cov, vec![
        "the ordinal spellers (harness/src/ordspell.rs) and marker table are the specification of 'standard spelling' and 'ordinal marker'".into(),
        "English plural 'firsts'/'seconds' are not generated (ordinary noun / time unit)".into(),
    ])
}
